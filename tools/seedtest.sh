#!/bin/sh
# usage: tools/seedtest.sh <seed-id> <tier> <check ids...>
# Applies /verif/seeded/<seed-id>/patch.diff to /repo, runs the given checks, reverts.
seed=$1; tier=$2; shift 2
cd /repo || exit 2
if ! git diff --quiet; then echo "/repo has uncommitted changes"; exit 2; fi
git apply /verif/seeded/$seed/patch.diff || { echo "patch does not apply"; exit 2; }
for c in "$@"; do
  echo "=== seed $seed vs check $c ($tier)"
  (cd /verif && ./check $c $tier | grep -E "VIOLATION|KNOWN-FINDING|key=|done in|MACHINERY" | head -12)
done
cd /repo && git checkout -q -- . && git status --short | head -3
# rebuild the harness against the restored tree so that no mutated binary is left behind
(cd /verif/harness && CARGO_NET_OFFLINE=true cargo build --release --quiet 2>/dev/null)
# restore evidence written on the mutated tree
cd /verif && git checkout -q -- evidence 2>/dev/null
