#!/usr/bin/env python3
"""Development-time helper (never run by a check): rewrites the C17 entries of
known_findings.json from /verif/.keys-C17.json (written by
`VERIF_DUMP_KEYS=1 vcheck C17 thorough` on the unchanged tree), after verifying that
every failing input belongs to one of the six recorded root causes. Inputs are kept
as exact lists (key_prefix + inputs), so a failing input that is not listed is still a VIOLATION."""
import json, sys, collections
keys = [k['key'] for k in json.load(open('/verif/.keys-C17.json'))]
kf = json.load(open('/verif/known_findings.json'))
def finding_of(key):
    parts = key.split(':')
    # C17:construction-panics:<cause>:<strategy>:n<n>:<family>:k<k>
    if len(parts) < 7 or parts[1] != 'construction-panics':
        return None
    cause, strat, n = parts[2], parts[3], parts[4]
    if cause == 'empty-weight-list' and strat == 'partition': return 'C17-partition-empty-bin'
    if cause == 'empty-weight-list' and strat == 'fa1-partition': return 'C17-fa1-partition-empty-bin'
    if cause == 'minimize-f-assertion' and strat == 'fa2': return 'C17-fa2-minimize-f-assertion'
    if cause == 'all-weights-zero' and strat == 'fa2': return 'C17-fa2-zero-fallback-weights'
    if cause == 'all-weights-zero' and strat.startswith('turbine') and n == 'n2': return 'C17-turbine-sampler-two-validators'
    if cause == 'subtract-overflow' and strat.startswith('turbine') and n == 'n1': return 'C17-turbine-sampler-one-validator'
    return None
groups = collections.defaultdict(lambda: collections.defaultdict(list))
bad = []
for k in keys:
    f = finding_of(k)
    if f is None:
        bad.append(k); continue
    prefix = ':'.join(k.split(':')[:4]) + ':'
    groups[f][prefix].append(k[len(prefix):])
if bad:
    print('keys outside the six recorded root causes (NOT added):'); [print('  ', b) for b in bad[:40]]; sys.exit(1)
new = []
for f in kf['findings']:
    if f.get('property') != 'C17':
        new.append(f); continue
    g = groups.get(f['id'], {})
    first = True
    for prefix, inputs in sorted(g.items()):
        e = {k: v for k, v in f.items() if k not in ('key', 'keys', 'key_prefix', 'inputs')}
        if not first:
            e['id'] = f['id']
        e['key_prefix'] = prefix
        e['inputs'] = sorted(set(inputs))
        new.append(e); first = False
    if not g:
        new.append(f)
kf['findings'] = new
json.dump(kf, open('/verif/known_findings.json', 'w'), indent=1)
print('listed inputs:', sum(len(x['inputs']) for x in new if 'inputs' in x))
