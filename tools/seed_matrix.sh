#!/bin/bash
# usage: tools/seed_matrix.sh [seed ids...]   (default: all of /verif/seeded)
# For every seeded change: apply it to the repository copy, rebuild the harness, run the quick check
# of its own property (and any extra checks listed in seeded/<id>/also.txt), record which violation
# keys were reported in seeded/<id>/meta.json ("caught_by") and in seeded/MATRIX.md, then revert.
# Environment: MATRIX_REPO (default /repo), MATRIX_HARNESS (default /verif/harness; a copy whose
# Cargo.toml points at MATRIX_REPO may be used so that the run is independent of ongoing edits),
# MATRIX_BIN (default /verif/.target/release/vcheck).
REPO=${MATRIX_REPO:-/repo}
HARNESS=${MATRIX_HARNESS:-/verif/harness}
BIN=${MATRIX_BIN:-/verif/.target/release/vcheck}
cd /verif || exit 2
out=/verif/seeded/MATRIX.md
[ $# -eq 0 ] && { echo "| seed | check | result | first keys |" > $out; echo "|---|---|---|---|" >> $out; }
for d in ${@:-$(ls seeded | grep -v MATRIX)}; do
  [ -f seeded/$d/patch.diff ] || continue
  prop=$(python3 -c "import json;print(json.load(open('seeded/$d/meta.json'))['property'])")
  checks="$prop"; [ -f seeded/$d/also.txt ] && checks="$checks $(cat seeded/$d/also.txt)"
  cd $REPO; git diff --quiet || { echo "$REPO dirty"; exit 2; }
  git apply /verif/seeded/$d/patch.diff || { echo "| $d | - | patch does not apply | |" >> $out; cd /verif; continue; }
  if ! (cd $HARNESS && CARGO_NET_OFFLINE=true cargo build --release --quiet 2>/dev/null); then
    echo "| $d | - | harness does not build against the change | |" >> $out
    cd $REPO && git checkout -q -- . ; cd /verif; continue
  fi
  cd /verif
  caught="[]"
  for c in $checks; do
    log=$($BIN $c quick 2>&1)
    n=$(echo "$log" | grep -c "^VIOLATION")
    keys=$(echo "$log" | grep -o "key=[^ ]*" | sort -u | head -3 | tr '\n' ' ')
    res="missed"; [ "$n" -gt 0 ] && res="caught ($n)"
    echo "| $d | $c quick | $res | $keys |" >> $out
    [ "$n" -gt 0 ] && caught=$(python3 -c "import json,sys;l=json.loads(sys.argv[1]);l.append(sys.argv[2]);print(json.dumps(l))" "$caught" "$c quick: $keys")
  done
  python3 - "$d" "$caught" <<'PY'
import json,sys
d,c=sys.argv[1],json.loads(sys.argv[2])
p=f'/verif/seeded/{d}/meta.json'
m=json.load(open(p)); m['caught_by']=c; m['ran']='tools/seed_matrix.sh: git apply patch.diff to the repository; rebuild the harness; vcheck <ID> quick; git checkout -- .'
json.dump(m,open(p,'w'),indent=1)
PY
  cd $REPO && git checkout -q -- . && cd /verif
done
(cd $HARNESS && CARGO_NET_OFFLINE=true cargo build --release --quiet 2>/dev/null)
[ "$REPO" = "/repo" ] && git checkout -q -- evidence 2>/dev/null
echo done
