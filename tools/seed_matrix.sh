#!/bin/bash
# usage: tools/seed_matrix.sh [seed ids...]   (default: all of /verif/seeded)
# For every seeded change: apply it to /repo, run the quick check of its own property (and any
# extra checks listed in seeded/<id>/also.txt), record which violation keys were reported in
# seeded/<id>/meta.json ("caught_by") and in seeded/MATRIX.md, then revert /repo.
cd /verif || exit 2
out=/verif/seeded/MATRIX.md
[ $# -eq 0 ] && { echo "| seed | check | result | first keys |" > $out; echo "|---|---|---|---|" >> $out; }
for d in ${@:-$(ls seeded | grep -v MATRIX)}; do
  [ -f seeded/$d/patch.diff ] || continue
  prop=$(python3 -c "import json;print(json.load(open('seeded/$d/meta.json'))['property'])")
  checks="$prop"; [ -f seeded/$d/also.txt ] && checks="$checks $(cat seeded/$d/also.txt)"
  cd /repo; git diff --quiet || { echo "/repo dirty"; exit 2; }
  git apply /verif/seeded/$d/patch.diff || { echo "| $d | - | patch does not apply | |" >> $out; cd /verif; continue; }
  cd /verif
  caught="[]"
  for c in $checks; do
    log=$(./check $c quick 2>&1)
    n=$(echo "$log" | grep -c "^VIOLATION")
    keys=$(echo "$log" | grep -o "key=[^ ]*" | sort -u | head -3 | tr '\n' ' ')
    res="missed"; [ "$n" -gt 0 ] && res="caught ($n)"
    echo "| $d | $c quick | $res | $keys |" >> $out
    [ "$n" -gt 0 ] && caught=$(python3 -c "import json,sys;l=json.loads(sys.argv[1]);l.append(sys.argv[2]);print(json.dumps(l))" "$caught" "$c quick: $keys")
  done
  python3 - "$d" "$caught" <<'PY'
import json,sys
d,c=sys.argv[1],json.loads(sys.argv[2])
p=f'/verif/seeded/{d}/meta.json'
m=json.load(open(p)); m['caught_by']=c; m['ran']='tools/seed_matrix.sh: git -C /repo apply patch.diff; ./check <ID> quick; git -C /repo checkout -- .'
json.dump(m,open(p,'w'),indent=1)
PY
  cd /repo && git checkout -q -- . && cd /verif
done
(cd /verif/harness && CARGO_NET_OFFLINE=true cargo build --release --quiet 2>/dev/null)
git checkout -q -- evidence 2>/dev/null
echo done
