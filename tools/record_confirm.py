#!/usr/bin/env python3
"""usage: tools/record_confirm.py <confirm log>...  - copies the result lines of tools/confirm_seeds.sh into seeded/<id>/meta.json"""
import json, os, sys
n = 0
for f in sys.argv[1:]:
    for l in open(f):
        parts = [x.strip() for x in l.split('|')]
        if len(parts) < 4 or not parts[0].startswith('C') or 'test result' not in parts[1]:
            continue
        p = f'/verif/seeded/{parts[0]}/meta.json'
        if not os.path.exists(p):
            continue
        m = json.load(open(p))
        m['confirmed_in_scratch_worktree'] = {
            'worktree': '/tmp/confirm (git worktree of /repo HEAD incl. fix commits, removed afterwards)',
            'how': 'tools/confirm_seeds.sh: git apply patch.diff + demo; demo command; cargo test --offline --lib; git apply -R patch.diff; demo command',
            'demo_with_change': parts[1].replace('with: ', ''),
            'demo_without_change': parts[2].replace('without: ', ''),
            'lib_suite_with_change_and_demo': parts[3].replace('suite(with patch+demo): ', '') + ' (the 2 baseline data-file tests fail on every tree; extra failures are the demo tests)'}
        json.dump(m, open(p, 'w'), indent=1)
        n += 1
print('recorded', n)
