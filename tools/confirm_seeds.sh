#!/bin/bash
# Confirms every seeded change in the scratch worktree /tmp/confirm (created from /repo HEAD):
# demo fails with the patch, passes without it, pinned lib suite unchanged with the patch.
set -u
W=/tmp/confirm
[ -d $W ] || git -C /repo worktree add -q $W HEAD
cd $W && git checkout -q --detach $(git -C /repo rev-parse HEAD) && git checkout -q -- . && git clean -fdq src tests
for d in ${@:-$(ls /verif/seeded)}; do
  S=/verif/seeded/$d
  cmd=$(python3 -c "import json;print(json.load(open('$S/meta.json'))['demo_cmd'].split('&&',1)[1].replace('-j 6','').strip())")
  git apply $S/patch.diff || { echo "$d: patch does not apply"; continue; }
  if [ -f $S/demo.diff ] && git apply $S/demo.diff 2>/dev/null; then :; else
     # demo delivered as a plain file
     [ -f $S/seed_demo.rs ] && mkdir -p tests && cp $S/seed_demo.rs tests/seed_demo.rs
  fi
  with=$( $cmd 2>&1 | grep "test result" | tail -1 )
  suite=$( cargo test --offline --lib 2>&1 | grep "test result" | tail -1 )
  git apply -R $S/patch.diff
  without=$( $cmd 2>&1 | grep "test result" | tail -1 )
  echo "$d | with: $with | without: $without | suite(with patch+demo): $suite"
  git checkout -q -- . && git clean -fdq src tests
done
