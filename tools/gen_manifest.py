#!/usr/bin/env python3
"""Generates /verif/MANIFEST.json from the table below (run from /verif)."""
import json, subprocess

HOOK_COMMITS = subprocess.run(
    ["git", "-C", "/repo", "log", "--format=%h %s", "--grep=^verif-hooks"],
    capture_output=True, text=True).stdout.strip().splitlines()

# id -> (level, technique, engine, design_ref, text, note)
CHECKS = {
 "C03": ("model_checking", "explicit-state BFS over the complete delivery lattice of a real PoolImpl, reference threshold model + third-party validation oracle on every transition", "E2",
         "DESIGN.md §3 C03",
         "Every order of every listed alphabet of validly signed votes and received certificates is executed on the real pool (states de-duplicated on a digest of the complete pool state); after every step each created certificate must validate at a third party, have signers within the accepted voters with stake at the threshold, and appear exactly in the step in which the reference (integer arithmetic over accepted votes) says it is due, once.",
         "Bounded to the listed stake vectors / alphabets (<= 20 messages, 1-2 slots, 2 blocks); trusts BLS verification in blst and the 64-bit state digest (collision ~1e-6)."),
 "C04": ("model_checking", "explicit-state BFS over all vote sequences of one/two validators on a real PoolImpl against a table-driven admission reference", "E2",
         "DESIGN.md §3 C04",
         "All sequences (every order, to closure) of the seven possible votes of a validator, interleaved with a second validator and a second slot, are executed on the real pool; the verdict of every add_vote must equal the reference table (Ok / Duplicate / Slashable(kind), both arrival orders), a refused vote must leave the pool digest unchanged, and the slot-window bounds are enumerated at their edges.",
         "Alphabet: 2-3 block hashes, 2 validators, 2 slots; order independence across more validators is covered by C03's lattices."),
 "C06": ("model_checking", "explicit-state BFS over the delivery lattice (votes, own vote, block registration, parent certificate) of a real PoolImpl against the safe-to-notar / safe-to-skip predicates recomputed from the accepted history", "E2",
         "DESIGN.md §3 C06",
         "Every arrival order of each alphabet is executed on the real pool, so each of the four triggers is last on some path; after every step the set of SafeToNotar / SafeToSkip events emitted must equal the set the reference predicate says became due in that step (no early, missing or repeated signal).",
         "Bounded alphabets (parent slot + child slot, 2-3 competing blocks, stake vectors hitting 20/40/60% exactly); a child of genesis is expected never to be signalled (no certificate is held for genesis)."),
 "C07": ("model_checking", "explicit-state BFS over every delivery order of safety-consistent multi-slot scenarios (certificates, votes, block-parent links, waiter registrations) on a real PoolImpl against the certified-and-skip-connected reference relation", "E2",
         "DESIGN.md §3 C07",
         "For every scenario of the family every arrival order is executed on the real pool; after every step parents_ready(s) must equal the reference set for every unpruned window start, every ParentReady announcement must be a member, emitted at most once and never for a pruned slot, newly ready pairs must be announced in the same step (except pairs dominated by the documented highest-window-only forwarding of one finalization event), and a registered waiter must be woken with a ready parent in the step the set becomes non-empty.",
         "Scenario family: curated + systematic per-slot menu over 3-4 slots and two windows, 3 equal stakes; certificates mostly injected as received certificates (vote-built ones in two scenarios)."),
 "C08": ("model_checking", "explicit-state BFS over every delivery order of safety-consistent multi-slot scenarios on a real PoolImpl against the finality closure (FF or Final+Notar, ancestors through known parent links) and the decided-prefix watermark", "E2",
         "DESIGN.md §3 C08",
         "After every step of every order: finalized_slot() equals the highest slot with FF or Final+Notar held and never decreases; the set of blocks/slots reported finalized / implicitly skipped equals the reference closure, each reported once; the first unpruned slot equals the end of the decided prefix (never beyond it, never behind it); nothing is retained below it (slot states, parent-ready states, finality status, parent links, waiting children) and inputs for older slots are refused while inputs for undecided slots are accepted.",
         "Same scenario family as C07 (includes the protocol-legal notar(x)+notar-fallback(a) equivocation case, finals before notars, children before parents, late certificates for implicitly decided slots)."),
 "C15": ("exploration", "exhaustive enumeration of claims (leaf, index, root, proof) over all tree sizes 1..64 (1..1024 thorough) against an independent recursive reference tree", "E3",
         "DESIGN.md §3 C15",
         "Every genuine proof must verify and every mutated claim from the menu (index inside/outside the width, other leaf, flipped root, each proof element flipped/emptied/swapped/reordered, every shorter proof, longer proofs up to 34) must be rejected by check_proof and check_proof_last; the last-leaf variant must hold exactly when all leaves to the right are empty. The typed DoubleMerkleTree used by repair is swept as well.",
         "Collision resistance of SHA-256 is assumed (a mutated claim is expected to fail); indices beyond 4*width are sampled at structured values."),
 "C18": ("model_checking", "explicit-state BFS over every delivery order of the C08 scenario family with the standstill-recovery bundle examined in every reached state (fresh real pool fed only the bundle)", "E2",
         "DESIGN.md §3 C18",
         "In every state of every order recover_from_standstill is triggered on the real pool: it must not panic (also before anything is finalized) nor change state; the bundle must contain certificates proving finalized_slot(), every certificate held for later slots and every own vote for later slots; every element must pass validation; a fresh real pool fed only the bundle must reach the same finalized_slot() and the same parents_ready for the following window.",
         "Votor clause: a real Votor in four pruning states (fresh, final certificate far ahead, slots retired, window ahead of the bundle) is handed bundles for slots 1/2/3/200 and must broadcast every element. 3 equal stakes, own validator 0."),
 "C05": ("model_checking", "explicit-state BFS (depth-bounded) over event sequences of one real node core (real PoolImpl + real Votor, own broadcasts looping back through the network) with a monitor automaton over the node's emitted votes", "E1",
         "DESIGN.md §3 C05",
         "All sequences up to the depth bound of foreign votes/certificates (other validators adversarial, one foreign vote = 45% stake), block arrivals (several per slot, children before parents), InvalidBlock/FirstShred, timeouts in timer order, loop-back deliveries of the node's own broadcasts and Votor queue lag are executed on the real Votor+Pool; every vote the node emits is judged by the monitor (one initial vote per slot, parent rule, finalize only for the own-notarized block after its notar certificate and never with skip/fallback votes, fallback votes only after the matching pool signal, own key) and fed to a fresh pool that must never call it slashable.",
         "Depth-bounded (quick 6, thorough 9) over four alphabets (slot 1, slots 1-2, window boundary 3-5, fallbacks with lag); duplicate timer tasks for one window are not modelled; conflicting finalization evidence forged by the unlimited adversary is out of scope (path pruned)."),
 "C09": ("exploration", "exhaustive enumeration of all signer subsets and a structured mutation menu of votes and certificates through the real decoder and ValidatedVote/ValidatedCert::try_new, oracle = unique honest BLS signature + distinct-stake arithmetic", "E3",
         "DESIGN.md §3 C09",
         "For epochs of 1-5 (thorough 7) validators with equal / tight / skewed stakes: every vote kind x signer with every field and signature mutation, every signer subset of every certificate type (all pairs of halves incl. overlapping for mixed types), and the certificate mutation menu (declared stake, slot, hash, re-tags, halves swapped/copied, bitmask length/garbage/out-of-range, aggregate corrupted/replaced) must be admitted iff authentic and backed by the type's threshold of distinct stake; never a panic.",
         "BLS signatures are deterministic and unique, so 'authentic' is decided by byte equality with the honestly produced signature; non-canonical bitmask lengths that are authentic and sufficient are don't-care."),
 "C11": ("exploration", "exhaustive enumeration over payload lengths x shredders x parent x structured shred subsets, oracle = field-by-field and byte-for-byte comparison with the leader's output", "E3",
         "DESIGN.md §3 C11",
         "Every serialized payload length 0..=max+64 (thorough; quick: every 61st plus all boundary regions) for all four shredders with and without parent is shredded and restored from each subset of the family (>=32: slice and all 64 shreds identical to the leader's and valid under the signed root; <32: NotEnoughShreds); oversize slices are refused; on every error path (too few shreds, shreds of another shredder, shreds mixed from two signed slices) the supplied array must be unchanged.",
         "2^64 subsets are not enumerable: the subset family targets the code's index bookkeeping (windows, low/high splits, prefixes, single missing, cyclic runs); MDS property of reed-solomon-simd is trusted."),
 "C12": ("exploration", "exhaustive enumeration of a structured mutation menu of genuine shreds x cached-commitment states through the real decoder and ValidatedShred::try_new, passing mutants replayed into a real blockstore, conflicting signed slices in both orders", "E3",
         "DESIGN.md §3 C12",
         "Every mutation of the menu (slot, slice index, last flag, shred index to each other position, one flipped bit per payload byte, payload length, each proof element flipped/dropped/swapped, proof lengths 0..33, signature bytes, foreign signature, type tag) of base shreds at both ends and at the data/coding boundary is validated with no / the identical / a conflicting validly signed / a foreign cached commitment: only unaltered commitments may pass, a conflicting signed commitment must give Equivocation, the cache must never turn a reject into an accept; every mutant that passes validation is fed at four positions among genuine shreds into a real blockstore and must neither get the correct leader flagged nor prevent reconstruction; conflicting signed slices (different data, same root with different last flag) must be reported by the blockstore in both arrival orders.",
         "A mutant byte-equal to another genuine shred of the leader (identical padding shreds) is genuine; signature-only mutants are allowed to pass when the cached commitment is identical (the statement allows that shortcut)."),
 "C13": ("model_checking", "explicit-state BFS over all interleavings of per-slice delivery stages, re-deliveries and alternative signed shreds on a real BlockstoreImpl, reference = the leader's signed block", "E2",
         "DESIGN.md §3 C13",
         "For every block shape (1-3 slices, thorough 4; empty to full slices; optimistic handover) every interleaving across slices of the delivery stages 0/1/31/32/33/40 shreds (three index orders), one re-delivery per slice and each alternative signed shred placed anywhere is executed: exactly one FirstShred; for clean histories exactly one Block in the step the last needed shred arrives, with the double-Merkle hash, the leader's parent (in an earlier slot) and transactions, after which every shred / slice root / double-Merkle proof is served byte-exactly; once a contradiction is revealed (conflicting slice, contradictory last markers in any order) exactly one InvalidBlock and never a Block afterwards; consistently signed malformed blocks (undecodable data, no parent, two switches, switch to itself, parent in the same or a later slot) give InvalidBlock and no Block; the leader's add_own_slice path stores the same block and shreds as a follower.",
         "Delivery within a slice is staged (1, 31, 32, 33, 40 shreds) rather than shred-by-shred; subsets of shreds are C11's subject."),
 "C19": ("exploration", "exhaustive enumeration of message variants / validator counts 1..=2048 / shred sizes through the real encoder and network decoder, plus the byte-substitution / truncation neighbourhood of valid encodings and all strings of length <= 2", "E3",
         "DESIGN.md §3 C19",
         "Every vote kind with boundary fields, every certificate type for every validator count 1..=2048 (signers: first, last, every 64-bit word boundary, all), shreds and shred-carrying repair responses over the payload sizes, all repair request/response variants and transactions must round-trip to identical bytes (and equal values), reject one trailing byte, reject slice index >= 1024, shred index >= 64 and bitmasks over 2048 bits or longer than their words, and fit 1500 bytes; for base messages of each type every single-byte substitution with 00/01/7f/80/ff, every truncation and one-byte extension, and all byte strings of length <= 2 must never panic, and whatever decodes must re-encode to a fixed point.",
         "'Arbitrary byte strings' is bounded to the neighbourhood of valid encodings and to strings of length <= 2; certificates for large n are built from one key (validity of signatures is C09's subject)."),
 "C20": ("model_checking", "explicit-state BFS over all insert/remove/fork/switch sequences on the real copy-on-write State closed under fork contents, with a BTreeMap reference, canonicity assertion and recomputed LtHash in every state; exhaustive enumeration of small block trees for DummyExecution", "E2",
         "DESIGN.md §3 C20",
         "All operation sequences over adversarially clustered keys (sharing 0/1/2/10/25/51 trie levels, keys differing only in low bits of a byte straddling a level boundary) with two values and up to three forks are explored to closure: in every state every fork answers get/len/ordered iteration like its BTreeMap reference, equals a state rebuilt from its contents in sorted and reverse order, other forks are untouched, insert/remove return the reference's old value, and the incrementally maintained LtHash equals the one recomputed from contents. DummyExecution: for all block trees of up to 3 (4) blocks, parents none/unknown/earlier, transaction sequences over two letters, Known/Pending ids, split and interleaved execution the reported commitment equals the fold of the parent's commitment (or parent hash) over the transactions.",
         "States are merged on the tuple of fork contents, justified by the canonicity assertion evaluated in every state; key alphabet of 8 (9) keys, 2 values."),
 "C16": ("exploration", "exhaustive enumeration over configurations x (slot, slice, shred) triples with one independently constructed instance per validator (twice, second one queried in reverse order) over a recording network, then execution of the fault-free dissemination on the recordings", "E3",
         "DESIGN.md §3 C16",
         "For validator counts 1-12, 50, 100 with equal / geometric / one-dominant / increasing stakes and protocols Rotor::new, Rotor::new_fa1 and Turbine with fanout 1/2/3/200, every validator's own instance must name the same first hop and the same forwarding set for every triple, independently of construction and call order; executing leader send + forwards on the recorded destinations, every non-leader validator receives each shred exactly once, through exactly one relay broadcast under Rotor.",
         "Configurations for which the FA1 partition sampler cannot be constructed (a C17 known finding) are skipped and listed in the evidence; slots 0..8, slices {0,1,2,511,512,513,1023}."),
 "C17": ("exploration", "exhaustive enumeration over strategies x validator sets x committee sizes x scripted random sources (real PRNG streams with 0-2 draws overridden by extreme values), oracle = exact integer arithmetic", "E3",
         "DESIGN.md §3 C17",
         "Every shipped strategy is constructed twice for every validator count (1..16, 31-33, 49, 63-65, 100, 1000, 2000) x stake family (equal, heavy tail, one dominant, straddling i/k, all vectors over 1..3 for n<=5) x committee size and sampled with every script: construction must not panic, exactly k in-range members, identical committees across constructions and repeated use, at least floor(f*k) seats under FA1/FA2 (exact integers), seat cap under decaying acceptance. Failing constructions that are recorded genuine defects are matched input-by-input against /verif/known_findings.json.",
         "Scripts deviate from real PRNG streams in at most two draws (a constant stream would only trip the documented MAX_TRIES rejection panic); TurbineSampler is cubic and limited to n <= 16."),
 "C14": ("fault_enumeration", "deviation-bounded exhaustive enumeration of hostile repair answers (<= 2 per history, 12 kinds, every listed request position) against the real Repair loop and real RepairRequestHandler under a paused single-threaded runtime; responder sweep over request kind x index x holding state", "E4",
         "DESIGN.md §3 C14",
         "Default environment: an honest peer (real RepairRequestHandler over a real blockstore holding the block) answers every request the real Repair loop sends. Every history with one hostile answer of each of 12 kinds at every listed request position, and pairs on a subset, is executed: NACK, silence, wrong variant, invalid proof, wrong index, wrong root, replayed answer, root/shred of another validly signed slice of the leader, same root with the other last flag, unsolicited answer, duplicate, corrupted signature / over-long proof / inflated slice count. After the last hostile answer all requests are answered correctly and up to 4 request time-outs elapse (virtual time): the repair task must be alive, nothing foreign stored under the requested id, and the block stored with its double-Merkle root equal to the id. Responder: every request kind x slice/shred index (0..=last+1, 1023; all 64 shreds) x {held, held via repair, partial, unknown} x sender (known/unknown) is answered with data verifying against the block hash or with a NACK, and the task survives.",
         "Blocks of 1-2 (thorough 3) slices; request destinations chosen by the library's thread RNG are ignored (requests are de-duplicated by content); hostile answers come from a fixed menu, not all byte strings (C19)."),
 "C01": ("model_checking", "explicit-state BFS (depth-bounded) over event sequences of a real node core (Votor + Pool) in worlds with a < 20% Byzantine validator and a second correct validator with a fixed legitimate persona; in every state observer pools are fed every certificate formable from really signed votes", "E1",
         "DESIGN.md §3 C01",
         "Stakes [199 Byzantine, 401 node under test, 400 other correct validator]: Byzantine + node is exactly 60%, so every certificate needs a real vote of a correct validator. All sequences up to the depth bound of Byzantine votes (anything it can sign), the other validator's persona votes (asleep / timed out / notarized a / notarized b), certificates the adversary can aggregate at that moment from really signed votes, two blocks per slot, InvalidBlock, timeouts and loop-back of own broadcasts are executed on the real Votor + Pool. Whenever the votes signed so far could support conflicting decisions, all formable certificates are built with the real constructors, validated, and fed in two orders to fresh real pools (correct nodes that wake up later): two blocks finalized in one slot, a slot both finalized and skip-certified, or finalized blocks off one chain is a violation with a replayable schedule.",
         "Worlds: one real node + one persona node (depth quick 5 / thorough 10), and two / three real nodes reacting to each other over FIFO links ([199,401,400] and [19,27,27,27]; depth quick 4 / thorough 8); slots 1-2 and the 3/4 window boundary; thresholds themselves are C03/C09's subject."),
 "C02": ("fault_enumeration", "exhaustive enumeration of a fault/timing menu over n real Alpenglow nodes (block producer, Rotor, blockstore, repair, Votor timers) in a paused, seeded, single-threaded runtime; verdict from certificates on the wire and finalized_slot() of every live node", "E4",
         "DESIGN.md §3 C02",
         "For n in {4,6} (thorough 4,5,6): every crash set below 20% of stake x pre-stabilisation prefix {none, one node isolated, partition 2|n-2, all traffic held back} released after 3.2 s, and per-node in/out link speed assignments {1 ms, 100/250 ms}: in each 16 s virtual run every live node's finalized slot must advance as expected after stabilisation, no node task may die, crashed leaders' windows must be skipped without blocking later ones, every slot of a correct leader in a window starting after stabilisation must be finalized (never skip-certified), by a fast-finalization certificate when >= 80% of stake is responsive.",
         "Horizon-bounded (16 s virtual, ~10 windows); pre-stabilisation faults delay messages, they do not drop them (loss is only recovered through the 10 s standstill path); Byzantine validators are silent in this check (noisy ones are C10's)."),
 "C10": ("fault_enumeration", "exhaustive enumeration of a hostile-input menu x protocol phases (thorough: ordered pairs) against real Alpenglow nodes in a paused, seeded, single-threaded runtime; oracle = per-simulation panic capture + the victim still votes, answers repair requests and finalizes like the undisturbed run", "E4",
         "DESIGN.md §3 C10",
         "Four real nodes run consensus; the fifth validator (19% stake, leader of its own windows and of the last window of the slot space) is the attacker. Each menu item is injected on the victim's interfaces at each phase: attacker-signed votes of all kinds at edge slots (0, current, 2-epoch boundary, u64::MAX), slashable pairs, unknown signers, replayed / mutated certificates, validly signed malformed blocks (parent in same / later / max slot, no parent, two switches, undecodable or absurd transaction lists, oversize transactions) for its next and a far-future window, contradictory last flags in both orders, conflicting slices, contradictions in the last window of the slot space, slice index 1023, raw slices with odd / zero / over-long / mixed shard sizes and non-codeword coding shreds under a validly signed root, tag-flipped / corrupted genuine shreds, repair requests (unknown sender, boundary indices, unknown blocks), unsolicited / mismatched repair responses, transactions of 0/512/513/1480 bytes and floods, garbage on all five interfaces; plus the scripted hand-over equivocation (previous leader gives the next leader a different block). No task may panic; the victim must keep voting, answering repair requests and finalizing.",
         "Bounded by the menu (about 50 structured items x 2-4 phases; pairs only in thorough), not all byte strings (C19 covers the decoders); 12 s virtual time per run."),
}

NOT_YET = {}

def main():
    props = [json.loads(l) for l in open("/verif/properties.jsonl")]
    checks = []
    na = []
    for p in props:
        pid = p["id"]
        if pid in CHECKS:
            level, tech, engine, ref, text, note = CHECKS[pid]
            checks.append({
                "property_id": pid,
                "quick_cmd": f"./check {pid} quick",
                "thorough_cmd": f"./check {pid} thorough",
                "evidence_file": f"/verif/evidence/{pid}.json",
                "replay_cmd_template": "./check replay {path}",
                "engine": engine,
                "level_claimed": {"category": level, "text": text, "design_ref": ref},
                "level_note": note,
                "technique": tech,
            })
        else:
            na.append({"property_id": pid, "reason": NOT_YET.get(pid, "check not built yet (planned within the model-checking family, see DESIGN.md §3); not claimed until it runs")})
    m = {
        "version": 1,
        "setup_cmd": "cd /verif/harness && CARGO_NET_OFFLINE=true cargo build --release",
        "hooks": {
            "guard": "cargo feature verif-hooks (default off)",
            "enable": "the harness crate /verif/harness depends on alpenglow = { path = \"/repo\", features = [\"test-utils\", \"verif-hooks\"] }; every ./check rebuilds it from /repo's working tree",
            "baseline_off_cmd": "cd /repo && (cargo nextest run --workspace --no-fail-fast --tool-config-file pb:/w/lib/nextest.toml --profile pb --test-threads 8 --offline || cargo test --workspace --no-fail-fast --offline)",
            "source_commits": HOOK_COMMITS,
            "add_only": True,
        },
        "engines": [
            {"name": "E2", "path": "/verif/harness/src/engine.rs", "serves_properties": sorted(k for k, v in CHECKS.items() if v[2] == "E2"),
             "kind_free_text": "level-synchronous replay-based explicit-state BFS over operation sequences of real components, dedup on a digest of the complete real state, reference model compared on every transition"},
            {"name": "E1", "path": "/verif/harness/src/nodesys.rs", "serves_properties": sorted(k for k, v in CHECKS.items() if v[2] == "E1"),
             "kind_free_text": "explicit-state exploration of real node cores (PoolImpl + Votor) with harness-owned network, timers and block arrivals"},
            {"name": "E4", "path": "/verif/harness/src/c14.rs", "serves_properties": sorted(k for k, v in CHECKS.items() if v[2] == "E4"),
             "kind_free_text": "real tasks (repair loop, responder, whole nodes) inside a paused, single-threaded tokio runtime with harness-owned in-memory networks; enumeration of a finite hostile-input / fault menu"},
            {"name": "E3", "path": "/verif/harness/src", "serves_properties": sorted(k for k, v in CHECKS.items() if v[2] == "E3"),
             "kind_free_text": "exhaustive nested-loop enumeration of a finite structured input domain of pure functions, oracle = independent recomputation"},
        ],
        "checks": checks,
        "not_applicable": na,
        "notes": "All checks: ./check <ID> <quick|thorough> (rebuilds harness against /repo working tree, exit 0 held / 1 VIOLATION / 2 machinery failure). Known findings: /verif/known_findings.json.",
    }
    json.dump(m, open("/verif/MANIFEST.json", "w"), indent=1)
    print("checks:", [c["property_id"] for c in checks], "not_applicable:", len(na))

main()
