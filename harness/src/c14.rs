//! C14: repair stores only data matching the requested hash and cannot be derailed.
//! Real `Repair` loop + real `RepairRequestHandler` in a paused single-threaded tokio
//! runtime; the explorer answers every request (deviation-bounded hostile answers).

use std::collections::{BTreeMap, VecDeque};
use std::net::SocketAddr;
use std::sync::{Arc, Mutex};
use std::time::Duration;

use alpenglow::consensus::{Blockstore, BlockstoreImpl, PoolImpl, SharedBlockstore, SharedPool};
use alpenglow::crypto::merkle::DoubleMerkleTree;
use alpenglow::network::Network;
use alpenglow::repair::{Repair, RepairRequest, RepairRequestHandler, RepairResponse};
use alpenglow::shredder::{Shred, ShredIndex};
use alpenglow::types::Slot;
use alpenglow::BlockId;
use rayon::prelude::*;
use serde_json::json;
use tokio::sync::{RwLock, mpsc};

use crate::bsdrv::*;
use crate::c11::slice_index;
use crate::common::{Epoch, Report, Samples, Tier, bh, make_epoch_ports, poll_once};
use crate::wire::*;

/// In-memory endpoint: records what is sent, receives what the harness injects.
pub struct Endpoint<S, R> {
    pub out: Arc<Mutex<Vec<(S, SocketAddr)>>>,
    inbox: tokio::sync::Mutex<mpsc::UnboundedReceiver<R>>,
}

pub fn endpoint<S, R>() -> (Endpoint<S, R>, Arc<Mutex<Vec<(S, SocketAddr)>>>, mpsc::UnboundedSender<R>) {
    let (tx, rx) = mpsc::unbounded_channel();
    let out = Arc::new(Mutex::new(Vec::new()));
    (Endpoint { out: out.clone(), inbox: tokio::sync::Mutex::new(rx) }, out, tx)
}

impl<S: Clone + Send + Sync, R: Send + Sync> Network for Endpoint<S, R> {
    type Send = S;
    type Recv = R;
    async fn send(&self, m: &S, addr: SocketAddr) -> std::io::Result<()> {
        self.out.lock().unwrap().push((m.clone(), addr));
        Ok(())
    }
    async fn send_to_many(&self, m: &S, addrs: impl IntoIterator<Item = SocketAddr> + Send) -> std::io::Result<()> {
        let mut g = self.out.lock().unwrap();
        for a in addrs {
            g.push((m.clone(), a));
        }
        Ok(())
    }
    async fn receive(&self) -> std::io::Result<R> {
        match self.inbox.lock().await.recv().await {
            Some(m) => Ok(m),
            None => std::future::pending().await,
        }
    }
}

#[derive(Clone, Copy, Debug, PartialEq, Eq, Hash, PartialOrd, Ord)]
pub enum Hostile {
    Nack,
    Silence,
    WrongVariant,
    InvalidProof,
    WrongIndex,
    WrongRoot,
    ReplayOther,
    OtherSignedSlice,
    SameRootOtherLastFlag,
    UnsolicitedFirst,
    DuplicateAnswer,
    ShredCorrupted,
    /// the answer is withheld and a peer keeps replaying a negative acknowledgement for the
    /// request every 100 ms for the rest of the run
    NackReplay,
    /// the shred is right in every respect except that its signature was made with a key that is
    /// not the leader's (over exactly the commitment the leader signed)
    ShredOtherKey,
    /// the genuine proof of a (last-)slice-root answer continued upwards with the canonical
    /// empty-subtree roots to 33 / 40 entries (taller than any tree the code supports)
    OverlongCanonicalProof,
    /// the genuine shred at the same position of the same block content signed by the same leader
    /// for ANOTHER slot of its window (same slice root, same last flag, valid signature)
    ShredFromOtherSlot,
}

pub const ALL_HOSTILE: [Hostile; 16] = [
    Hostile::ShredFromOtherSlot,
    Hostile::OverlongCanonicalProof,
    Hostile::ShredOtherKey,
    Hostile::NackReplay,
    Hostile::Nack,
    Hostile::Silence,
    Hostile::WrongVariant,
    Hostile::InvalidProof,
    Hostile::WrongIndex,
    Hostile::WrongRoot,
    Hostile::ReplayOther,
    Hostile::OtherSignedSlice,
    Hostile::SameRootOtherLastFlag,
    Hostile::UnsolicitedFirst,
    Hostile::DuplicateAnswer,
    Hostile::ShredCorrupted,
];

struct Outcome {
    stored: bool,
    content_ok: bool,
    task_alive: bool,
    timeouts: usize,
    requests: usize,
    panic: Option<String>,
    foreign_stored: bool,
}

struct Fixture {
    epoch: Epoch,
    block: SignedBlock,
    /// alternative validly signed slices of the (Byzantine) leader: different data / other last flag
    alt_data: Vec<[alpenglow::shredder::ValidatedShred; 64]>,
    alt_flag: Vec<[alpenglow::shredder::ValidatedShred; 64]>,
    /// signature of a non-leader key over each slice's genuine commitment
    other_key_sig: Vec<[u8; 64]>,
    /// the same slices signed by the leader for slot SLOT + 1 (same window)
    other_slot: Vec<[alpenglow::shredder::ValidatedShred; 64]>,
}

const SLOT: u64 = 2;

fn fixture(nslices: usize) -> Fixture {
    let epoch = make_epoch_ports(&[1, 1, 1], |i, ch| 3000 + (i as u16) * 10 + ch);
    let sk = epoch.sig_sks[0].clone(); // leader of window 0
    let parent = Some((Slot::new(1), bh("c14-parent")));
    let specs: Vec<SliceSpec> = (0..nslices)
        .map(|j| SliceSpec { parent: if j == 0 { parent.clone() } else { None }, txs: vec![vec![j as u8 + 1; 30 + j]], raw: None })
        .collect();
    let block = sign_block(SLOT, &specs, &sk);
    let mut alt_data = Vec::new();
    let mut alt_flag = Vec::new();
    let mut other_key_sig = Vec::new();
    for j in 0..nslices {
        let mut sp = specs[j].clone();
        sp.txs = vec![vec![0xee; 30 + j]];
        alt_data.push(sign_slice(SLOT, j, j + 1 == nslices, &sp, &sk).1);
        alt_flag.push(sign_slice(SLOT, j, j + 1 != nslices, &specs[j], &sk).1);
        let foreign = sign_slice(SLOT, j, j + 1 == nslices, &specs[j], &epoch.sig_sks[1]).1;
        other_key_sig.push(to_mirror::<Shred, MShred>(foreign[0].as_shred()).sig);
    }
    let other_slot = sign_block(SLOT + 1, &specs, &sk).shreds;
    Fixture { epoch, block, alt_data, alt_flag, other_key_sig, other_slot }
}

fn req_type_of(r: &RepairRequest) -> MReqType {
    to_mirror::<RepairRequest, MRequest>(r).req
}

#[derive(Clone, Copy, Debug, PartialEq, Eq, Default)]
pub enum Preheld {
    #[default]
    Nothing,
    /// a few genuine dissemination shreds of the same block (dissemination was incomplete)
    SameBlockPartial,
    /// dissemination shreds of another block the (equivocating) leader signed for this slot
    ConflictingBlock,
    /// the leader's other block of the slot arrived completely through dissemination: the slot
    /// "has a block" while the block under repair is a different one
    ConflictingBlockComplete,
}

#[derive(Clone, Copy, Debug, Default)]
pub struct Env {
    pub preheld: Preheld,
    /// the pool asks again for the repair of the same block right after this request position
    pub retrigger_after: Option<usize>,
    /// the leader equivocated: the other validly signed block of the same slot is repaired
    /// concurrently (0 = no, 1 = requested right after, 2 = requested right before)
    pub sibling: u8,
}

/// Runs one history: hostile deviations at the given request positions, everything else answered correctly.
fn run_history(fx: &Fixture, deviations: &BTreeMap<usize, Hostile>) -> Outcome {
    run_history_env(fx, deviations, Env::default())
}

fn run_history_env(fx: &Fixture, deviations: &BTreeMap<usize, Hostile>, env: Env) -> Outcome {
    let rt = tokio::runtime::Builder::new_current_thread().enable_all().start_paused(true).build().unwrap();
    let res = std::panic::catch_unwind(std::panic::AssertUnwindSafe(|| {
        rt.block_on(async {
            let victim = 1usize;
            let id: BlockId = (Slot::new(SLOT), fx.block.hash.clone());
            // victim
            let (bs_tx, _bs_rx) = mpsc::channel(4096);
            let (pool_tx, _pool_rx) = mpsc::channel(4096);
            let (rep_tx, _rep_rx) = mpsc::channel(4096);
            let mut vstore = BlockstoreImpl::new(bs_tx);
            match env.preheld {
                Preheld::Nothing => {}
                Preheld::SameBlockPartial => {
                    for set in &fx.block.shreds {
                        for s in set.iter().skip(3).take(5) {
                            let _ = vstore.add_shred_from_dissemination(s.clone()).await;
                        }
                    }
                }
                Preheld::ConflictingBlock => {
                    for set in &fx.alt_data {
                        for s in set.iter().skip(3).take(5) {
                            let _ = vstore.add_shred_from_dissemination(s.clone()).await;
                        }
                    }
                }
                Preheld::ConflictingBlockComplete => {
                    for set in &fx.alt_data {
                        for s in set.iter() {
                            let _ = vstore.add_shred_from_dissemination(s.clone()).await;
                        }
                    }
                }
            }
            let vbs = Arc::new(RwLock::new(vstore));
            let blockstore: SharedBlockstore = vbs.clone();
            let pool: SharedPool = Arc::new(RwLock::new(PoolImpl::new(fx.epoch.vei(victim), pool_tx, rep_tx)));
            let (vnet, vout, vin) = endpoint::<RepairRequest, RepairResponse>();
            let mut repair = Repair::new(blockstore.clone(), pool, vnet, fx.epoch.vei(victim));
            let (trigger_tx, trigger_rx) = mpsc::channel(16);
            let task = tokio::spawn(async move { repair.repair_loop(trigger_rx).await });
            // honest peer holding the block
            let (pbs_tx, _pbs_rx) = mpsc::channel(4096);
            let mut peer_store = BlockstoreImpl::new(pbs_tx);
            for set in &fx.block.shreds {
                for s in set.iter() {
                    let _ = peer_store.add_shred_from_dissemination(s.clone()).await;
                }
            }
            // the honest peer also holds the leader's other block of the slot (obtained by repair)
            let id2: BlockId = (Slot::new(SLOT), DoubleMerkleTree::new(fx.alt_data.iter().map(|set| set[0].slice_root())).get_root());
            if env.sibling > 0 {
                for set in &fx.alt_data {
                    for s in set.iter() {
                        let _ = peer_store.add_shred_from_repair(id2.1.clone(), s.clone()).await;
                    }
                }
            }
            let pbs: SharedBlockstore = Arc::new(RwLock::new(peer_store));
            let (pnet, pout, pin) = endpoint::<RepairResponse, RepairRequest>();
            let handler = RepairRequestHandler::new(fx.epoch.vei(0), pbs, pnet);
            let _peer_task = tokio::spawn(async move { handler.run().await });

            async fn settle() {
                for _ in 0..40 {
                    tokio::task::yield_now().await;
                }
            }
            let correct = |req: &RepairRequest| {
                let pin = pin.clone();
                let pout = pout.clone();
                let req = req.clone();
                async move {
                    pout.lock().unwrap().clear();
                    pin.send(req).unwrap();
                    settle().await;
                    pout.lock().unwrap().pop().map(|(r, _)| r)
                }
            };

            if env.sibling == 2 {
                trigger_tx.send(id2.clone()).await.unwrap();
                settle().await;
            }
            trigger_tx.send(id.clone()).await.unwrap();
            settle().await;
            if env.sibling == 1 {
                trigger_tx.send(id2.clone()).await.unwrap();
                settle().await;
            }
            let mut pending: VecDeque<RepairRequest> = VecDeque::new();
            let mut seen_types: Vec<MReqType> = Vec::new();
            let mut earlier_correct: Vec<RepairResponse> = Vec::new();
            let mut position = 0usize;
            let mut timeouts = 0usize;
            let mut stored = false;
            let last_dev = deviations.keys().max().copied().unwrap_or(0);
            let mut timeouts_after_last_dev = 0usize;
            let mut storm: Option<MReqType> = None;
            loop {
                // collect newly sent requests (one per distinct request type, whatever the peers addressed)
                let new: Vec<(RepairRequest, SocketAddr)> = std::mem::take(&mut *vout.lock().unwrap());
                for (r, _) in new {
                    let t = req_type_of(&r);
                    if !pending.iter().any(|p| req_type_of(p) == t) {
                        pending.push_back(r);
                    }
                }
                stored = blockstore.read().await.get_block(&id).is_some() && (env.sibling == 0 || blockstore.read().await.get_block(&id2).is_some());
                if task.is_finished() {
                    break;
                }
                if pending.is_empty() {
                    if stored || timeouts_after_last_dev >= 4 || timeouts >= 10 {
                        break;
                    }
                    if let Some(t) = &storm {
                        for _ in 0..7 {
                            if let Ok(r) = from_mirror::<MResponse, RepairResponse>(&MResponse::Nack(t.clone())) {
                                let _ = vin.send(r);
                            }
                            settle().await;
                            tokio::time::advance(Duration::from_millis(100)).await;
                            settle().await;
                        }
                    } else {
                        tokio::time::advance(Duration::from_millis(700)).await;
                        settle().await;
                    }
                    timeouts += 1;
                    if position >= last_dev {
                        timeouts_after_last_dev += 1;
                    }
                    continue;
                }
                let req = pending.pop_front().unwrap();
                position += 1;
                if env.retrigger_after == Some(position) {
                    trigger_tx.send(id.clone()).await.unwrap();
                    settle().await;
                }
                if position > 2000 {
                    break;
                }
                let t = req_type_of(&req);
                if !seen_types.contains(&t) {
                    seen_types.push(t.clone());
                }
                let good = correct(&req).await;
                let hostile = deviations.get(&position).copied();
                let mut answers: Vec<RepairResponse> = Vec::new();
                match (hostile, &good) {
                    (None, Some(g)) => answers.push(g.clone()),
                    (None, None) => {}
                    (Some(h), g) => {
                        let gm: Option<MResponse> = g.as_ref().map(|g| to_mirror(g));
                        let crafted: Vec<MResponse> = match (h, gm) {
                            (Hostile::Nack, _) => vec![MResponse::Nack(t.clone())],
                            (Hostile::Silence, _) => vec![],
                            (Hostile::NackReplay, _) => {
                                storm = Some(t.clone());
                                vec![]
                            }
                            (Hostile::WrongVariant, Some(_)) => match &t {
                                MReqType::LastSliceRoot(_) => vec![MResponse::SliceRoot(t.clone(), [7; 32], vec![])],
                                MReqType::SliceRoot(..) => vec![MResponse::LastSliceRoot(t.clone(), 0, [7; 32], vec![])],
                                MReqType::Shred(..) => vec![MResponse::SliceRoot(t.clone(), [7; 32], vec![])],
                            },
                            (Hostile::InvalidProof, Some(m)) => match m {
                                MResponse::LastSliceRoot(a, b, c, mut p) => { p.push([9; 32]); vec![MResponse::LastSliceRoot(a, b, c, p)] }
                                MResponse::SliceRoot(a, c, mut p) => { if p.is_empty() { p.push([9; 32]); } else { p[0][0] ^= 1; } vec![MResponse::SliceRoot(a, c, p)] }
                                MResponse::Shred(a, mut s) => { if s.path.is_empty() { s.path.push([9; 32]) } else { s.path[0][0] ^= 1; } vec![MResponse::Shred(a, s)] }
                                other => vec![other],
                            },
                            (Hostile::WrongIndex, Some(m)) => match m {
                                MResponse::LastSliceRoot(a, b, c, p) => vec![MResponse::LastSliceRoot(a, b + 2, c, p)],
                                MResponse::SliceRoot(a, c, p) => vec![MResponse::SliceRoot(a, c, p.into_iter().rev().collect())],
                                MResponse::Shred(a, mut s) => { s.p_mut().shred_index = (s.p().shred_index + 1) % 64; vec![MResponse::Shred(a, s)] }
                                other => vec![other],
                            },
                            (Hostile::WrongRoot, Some(m)) => match m {
                                MResponse::LastSliceRoot(a, b, _, p) => vec![MResponse::LastSliceRoot(a, b, [5; 32], p)],
                                MResponse::SliceRoot(a, _, p) => vec![MResponse::SliceRoot(a, [5; 32], p)],
                                MResponse::Shred(a, mut s) => { let l = s.p().data.len(); if l > 0 { s.p_mut().data[l - 1] ^= 1; } vec![MResponse::Shred(a, s)] }
                                other => vec![other],
                            },
                            (Hostile::ReplayOther, _) => earlier_correct.first().map(|r| vec![to_mirror(r)]).unwrap_or_default(),
                            (Hostile::OtherSignedSlice, Some(m)) | (Hostile::SameRootOtherLastFlag, Some(m)) => match (&t, m) {
                                (MReqType::Shred(_, sl, sh), MResponse::Shred(a, _)) => {
                                    let src = if h == Hostile::OtherSignedSlice { &fx.alt_data } else { &fx.alt_flag };
                                    let s: MShred = to_mirror(src[*sl as usize][*sh as usize].as_shred());
                                    vec![MResponse::Shred(a, s)]
                                }
                                (MReqType::SliceRoot(_, sl), MResponse::SliceRoot(a, _, p)) => {
                                    let r: [u8; 32] = wincode::serialize(fx.alt_data[*sl as usize][0].slice_root()).unwrap().try_into().unwrap();
                                    vec![MResponse::SliceRoot(a, r, p)]
                                }
                                (_, other) => vec![other],
                            },
                            (Hostile::UnsolicitedFirst, Some(m)) => {
                                let unsolicited = MResponse::Nack(MReqType::Shred(MBlockId { slot: 99, hash: [1; 32] }, 0, 0));
                                vec![unsolicited, m]
                            }
                            (Hostile::DuplicateAnswer, Some(m)) => vec![m.clone(), m],
                            (Hostile::ShredCorrupted, Some(m)) => match m {
                                MResponse::Shred(a, mut s) => { s.sig[3] ^= 0x10; vec![MResponse::Shred(a, s)] }
                                MResponse::SliceRoot(a, c, p) => vec![MResponse::SliceRoot(a, c, vec![[0; 32]; 33].into_iter().chain(p).collect())],
                                MResponse::LastSliceRoot(a, _, c, p) => vec![MResponse::LastSliceRoot(a, 1023, c, p)],
                                other => vec![other],
                            },
                            (Hostile::OverlongCanonicalProof, Some(m)) => {
                                let extend = |p: &Vec<[u8; 32]>, to: usize| -> Vec<[u8; 32]> {
                                    let mut q = p.clone();
                                    while q.len() < to {
                                        q.push(crate::c15::empty_root_bytes(q.len()));
                                    }
                                    q
                                };
                                match m {
                                    MResponse::LastSliceRoot(a, i, c, p) => vec![MResponse::LastSliceRoot(a.clone(), i, c, extend(&p, 33)), MResponse::LastSliceRoot(a, i, c, extend(&p, 40))],
                                    MResponse::SliceRoot(a, c, p) => vec![MResponse::SliceRoot(a.clone(), c, extend(&p, 33)), MResponse::SliceRoot(a, c, extend(&p, 40))],
                                    other => vec![other],
                                }
                            }
                            (Hostile::ShredFromOtherSlot, Some(m)) => match (&t, m) {
                                (MReqType::Shred(_, sl, sh), MResponse::Shred(a, _)) => {
                                    let s: MShred = to_mirror(fx.other_slot[*sl as usize][*sh as usize].as_shred());
                                    vec![MResponse::Shred(a, s)]
                                }
                                (_, other) => vec![other],
                            },
                            (Hostile::ShredOtherKey, Some(m)) => match (&t, m) {
                                (MReqType::Shred(_, sl, _), MResponse::Shred(a, mut s)) => { s.sig = fx.other_key_sig[*sl as usize]; vec![MResponse::Shred(a, s)] }
                                (_, other) => vec![other],
                            },
                            (_, None) => vec![],
                        };
                        for c in crafted {
                            if let Ok(r) = from_mirror::<MResponse, RepairResponse>(&c) {
                                answers.push(r);
                            }
                        }
                    }
                }
                if hostile.is_none() {
                    if let Some(g) = &good {
                        if earlier_correct.len() < 3 {
                            earlier_correct.push(g.clone());
                        }
                    }
                }
                for a in answers {
                    let _ = vin.send(a);
                    settle().await;
                }
            }
            // integrity of whatever is stored under the requested id
            let guard = vbs.read().await;
            let mut content_ok = true;
            let mut foreign = false;
            if guard.get_block(&id).is_some() {
                let last = guard.get_last_slice_index(&id);
                let n = fx.block.shreds.len();
                if last != Some(slice_index(n - 1)) {
                    content_ok = false;
                }
                let roots: Vec<_> = (0..n).filter_map(|j| guard.get_slice_root(&id, slice_index(j))).collect();
                if roots.len() != n || DoubleMerkleTree::new(roots.iter()).get_root() != id.1 {
                    content_ok = false;
                }
            }
            // shreds stored under the id must belong to the block
            for j in 0..fx.block.shreds.len() {
                for i in 0..64 {
                    if let Some(s) = guard.get_shred(&id, slice_index(j), ShredIndex::new(i).unwrap()) {
                        if s.slice_root() != &fx.block.roots[j] {
                            foreign = true;
                        }
                        // whatever is stored (and will be served to others) must carry the leader's signature
                        if alpenglow::shredder::ValidatedShred::try_new(s.as_shred().clone(), None, &fx.epoch.sig_sks[0].to_pk()).is_err() {
                            foreign = true;
                        }
                    }
                }
            }
            // nothing may have been filed under the block's hash in a neighbouring slot either
            for other in [SLOT - 1, SLOT + 1] {
                let oid: BlockId = (Slot::new(other), fx.block.hash.clone());
                for j in 0..fx.block.shreds.len() {
                    for i in 0..64 {
                        if guard.get_shred(&oid, slice_index(j), ShredIndex::new(i).unwrap()).is_some() {
                            foreign = true;
                        }
                    }
                }
            }
            drop(guard);
            Outcome { stored, content_ok, task_alive: !task.is_finished(), timeouts, requests: position, panic: None, foreign_stored: foreign }
        })
    }));
    match res {
        Ok(o) => o,
        Err(p) => {
            let msg = p.downcast_ref::<String>().cloned().or_else(|| p.downcast_ref::<&str>().map(|s| s.to_string())).unwrap_or_default();
            Outcome { stored: false, content_ok: false, task_alive: false, timeouts: 0, requests: 0, panic: Some(msg), foreign_stored: false }
        }
    }
}

fn judge(report: &Report, fx_name: &str, devs: &BTreeMap<usize, Hostile>, o: &Outcome, req_kind: &dyn Fn(usize) -> &'static str) {
    judge_env(report, fx_name, devs, o, req_kind, Env::default())
}

fn judge_env(report: &Report, fx_name: &str, devs: &BTreeMap<usize, Hostile>, o: &Outcome, req_kind: &dyn Fn(usize) -> &'static str, env: Env) {
    let mut desc: Vec<String> = devs.iter().map(|(p, h)| format!("{h:?}@{}#{p}", req_kind(*p))).collect();
    let mut class: Vec<String> = devs.iter().map(|(p, h)| format!("{h:?}@{}", req_kind(*p))).collect();
    if env.preheld != Preheld::Nothing {
        desc.push(format!("preheld:{:?}", env.preheld));
        class.push(format!("preheld:{:?}", env.preheld));
    }
    if env.sibling > 0 {
        desc.push(format!("sibling-block-of-the-slot-repaired-concurrently:{}", if env.sibling == 1 { "requested-after" } else { "requested-before" }));
        class.push("sibling-block-repaired-concurrently".to_string());
    }
    if let Some(p) = env.retrigger_after {
        desc.push(format!("repair-requested-again-after#{p}"));
        class.push("repair-requested-again".to_string());
    }
    let replay = json!({"block": fx_name, "hostile_answers": desc});
    if let Some(p) = &o.panic {
        report.violation(format!("C14:harness-panics:{}", class.join("+")), p.clone(), replay.clone());
        return;
    }
    if !o.task_alive {
        let msgs = crate::common::take_panics();
        report.violation(
            format!("C14:repair-task-died:{}", class.join("+")),
            format!("repair loop terminated after hostile answers {desc:?}: {:?}", msgs.last()),
            replay.clone(),
        );
        return;
    }
    if o.foreign_stored || (o.stored && !o.content_ok) {
        report.violation(
            format!("C14:foreign-data-stored-under-requested-id:{}", class.join("+")),
            format!("after hostile answers {desc:?} data that is not part of the block is stored under its id (stored={}, content_ok={})", o.stored, o.content_ok),
            replay.clone(),
        );
    }
    if !o.stored {
        report.violation(
            format!("C14:repair-derailed:{}", class.join("+")),
            format!(
                "after hostile answers {desc:?}, every later request was answered correctly and {} timeouts elapsed, but the block was never stored ({} requests answered)",
                o.timeouts, o.requests
            ),
            replay,
        );
    }
}

/// Responder: every request kind x index x holding state is answered verifiably or with a NACK.
fn responder_sweep(report: &Report, fx: &Fixture) -> usize {
    let mut cases = 0;
    for state in ["held", "held-via-repair", "held-after-an-unfinished-repair-of-the-same-block", "partial", "unknown"] {
        let (tx, _rx) = mpsc::channel(4096);
        let mut store = BlockstoreImpl::new(tx);
        match state {
            "held" => {
                for set in &fx.block.shreds {
                    for s in set.iter() {
                        let _ = poll_once(store.add_shred_from_dissemination(s.clone()));
                    }
                }
            }
            "held-after-an-unfinished-repair-of-the-same-block" => {
                // a repair of the block was started (two shreds filed under its hash), then the whole
                // block arrived through dissemination: the node holds it
                for s in fx.block.shreds[0].iter().skip(5).take(2) {
                    let _ = poll_once(store.add_shred_from_repair(fx.block.hash.clone(), s.clone()));
                }
                for set in &fx.block.shreds {
                    for s in set.iter() {
                        let _ = poll_once(store.add_shred_from_dissemination(s.clone()));
                    }
                }
            }
            "held-via-repair" => {
                for set in &fx.block.shreds {
                    for s in set.iter().take(40) {
                        let _ = poll_once(store.add_shred_from_repair(fx.block.hash.clone(), s.clone()));
                    }
                }
            }
            "partial" => {
                for s in fx.block.shreds[0].iter().take(10) {
                    let _ = poll_once(store.add_shred_from_dissemination(s.clone()));
                }
            }
            _ => {}
        }
        let pbs: SharedBlockstore = Arc::new(RwLock::new(store));
        let rt = tokio::runtime::Builder::new_current_thread().enable_all().start_paused(true).build().unwrap();
        let n = fx.block.shreds.len();
        let leader_pk = fx.epoch.sig_sks[0].to_pk();
        rt.block_on(async {
            let (pnet, pout, pin) = endpoint::<RepairResponse, RepairRequest>();
            let handler = RepairRequestHandler::new(fx.epoch.vei(0), pbs, pnet);
            let task = tokio::spawn(async move { handler.run().await });
            let bid = MBlockId { slot: SLOT, hash: wincode::serialize(&fx.block.hash).unwrap().try_into().unwrap() };
            let mut reqs: Vec<MReqType> = vec![MReqType::LastSliceRoot(bid.clone())];
            for sl in (0..=n as u64 + 1).chain([1023]) {
                reqs.push(MReqType::SliceRoot(bid.clone(), sl));
                for sh in [0u64, 1, 31, 32, 63] {
                    reqs.push(MReqType::Shred(bid.clone(), sl, sh));
                }
            }
            for sh in 0..64 {
                reqs.push(MReqType::Shred(bid.clone(), 0, sh));
            }
            reqs.push(MReqType::LastSliceRoot(MBlockId { slot: SLOT, hash: [3; 32] }));
            for sender in [1u64, 2, 3, u64::MAX] {
                for rq in &reqs {
                    cases += 1;
                    let Ok(real) = from_mirror::<MRequest, RepairRequest>(&MRequest { sender, req: rq.clone() }) else { continue };
                    pout.lock().unwrap().clear();
                    pin.send(real).unwrap();
                    for _ in 0..30 {
                        tokio::task::yield_now().await;
                    }
                    let replay = json!({"responder_state": state, "request": format!("{rq:?}"), "sender": sender});
                    if task.is_finished() {
                        report.violation(format!("C14:responder-task-died:{state}"), format!("responder died on {rq:?} from sender {sender}"), replay);
                        return;
                    }
                    let outs: Vec<(RepairResponse, SocketAddr)> = std::mem::take(&mut *pout.lock().unwrap());
                    if sender >= 3 {
                        if !outs.is_empty() {
                            report.violation("C14:responder-answers-unknown-sender".to_string(), format!("{rq:?}"), replay);
                        }
                        continue;
                    }
                    if outs.len() != 1 {
                        report.violation(format!("C14:responder-gives-{}-answers:{state}", outs.len()), format!("{rq:?}"), replay);
                        continue;
                    }
                    let m: MResponse = to_mirror(&outs[0].0);
                    let held = state.starts_with("held");
                    let known_block = matches!(rq, MReqType::LastSliceRoot(b) | MReqType::SliceRoot(b, _) | MReqType::Shred(b, _, _) if b.hash == bid.hash);
                    let in_range = match rq {
                        MReqType::LastSliceRoot(_) => true,
                        MReqType::SliceRoot(_, sl) | MReqType::Shred(_, sl, _) => (*sl as usize) < n,
                    };
                    let ok = match (&m, &outs[0].0) {
                        (MResponse::Nack(t), _) => t == rq && !(held && known_block && in_range),
                        (MResponse::LastSliceRoot(t, idx, _, _), RepairResponse::LastSliceRoot(_, _, root, proof)) => {
                            t == rq && known_block && *idx as usize == n - 1 && DoubleMerkleTree::check_proof_last(root, *idx as usize, &fx.block.hash, proof)
                        }
                        (MResponse::SliceRoot(t, _, _), RepairResponse::SliceRoot(_, root, proof)) => match rq {
                            MReqType::SliceRoot(_, sl) => t == rq && known_block && DoubleMerkleTree::check_proof(root, *sl as usize, &fx.block.hash, proof) && root == &fx.block.roots[*sl as usize],
                            _ => false,
                        },
                        (MResponse::Shred(t, ms), RepairResponse::Shred(_, shred)) => match rq {
                            MReqType::Shred(_, sl, sh) => {
                                t == rq
                                    && ms.p().header.slot == SLOT
                                    && ms.p().header.slice_index == *sl
                                    && ms.p().shred_index == *sh
                                    && shred.slice_root() == fx.block.roots[*sl as usize]
                                    && alpenglow::shredder::ValidatedShred::try_new(shred.clone(), None, &leader_pk).is_ok()
                            }
                            _ => false,
                        },
                        _ => false,
                    };
                    if !ok {
                        report.violation(
                            format!("C14:responder-answer-not-verifiable:{state}:{}", match rq { MReqType::LastSliceRoot(_) => "last-slice-root", MReqType::SliceRoot(..) => "slice-root", MReqType::Shred(..) => "shred" }),
                            format!("request {rq:?} with block {state}: answer {:.120}", format!("{m:?}")),
                            replay,
                        );
                    }
                }
            }
        });
    }
    cases
}

/// C10 through the repair path: a real `Repair` instance with outstanding requests gets every hostile
/// answer kind at the metadata requests and the first shred requests; whatever the answer, the
/// repair task must survive (a dead repair loop also takes the message loop down with its next use).
pub fn c10_repair_crash_probe(report: &Report, tier: Tier) -> usize {
    let mut runs = 0;
    for nslices in tier.pick(vec![1usize, 2], vec![1, 2, 3]) {
        let fx = fixture(nslices);
        let positions: Vec<usize> = vec![1, 2, 1 + nslices, 2 + nslices, 3 + nslices];
        let mut histories: Vec<BTreeMap<usize, Hostile>> = Vec::new();
        for p in &positions {
            for h in ALL_HOSTILE {
                histories.push([(*p, h)].into_iter().collect());
            }
        }
        let outcomes: Vec<(BTreeMap<usize, Hostile>, Outcome)> = histories.into_par_iter().map(|d| { let o = run_history(&fx, &d); (d, o) }).collect();
        for (d, o) in outcomes {
            runs += 1;
            let (p, h) = d.iter().next().map(|(p, h)| (*p, *h)).unwrap();
            let replay = json!({"oracle": "repair-crash-probe", "slices": nslices, "hostile": format!("{h:?}#{p}")});
            let died = o.panic.is_some() || !o.task_alive;
            if died {
                let msgs = crate::common::take_panics();
                report.violation(
                    format!("C10:repair-task-dies-on-hostile-answer:{h:?}"),
                    format!("{nslices}-slice block under repair, request #{p} answered with {h:?}: the repair task is gone ({:.160})", o.panic.clone().or_else(|| msgs.first().cloned()).unwrap_or_default()),
                    replay,
                );
            }
        }
    }
    runs
}

/// C12 through the repair path: shreds that are right in everything but the signature (one bit
/// flipped, or made with another validator's key over the genuine commitment) answer one, several
/// or all shred requests of a repair; nothing that does not carry the leader's signature may end
/// up stored (and thereby served to others) under the block's id. Returns the histories run.
pub fn c12_repair_probe(report: &Report, tier: Tier) -> usize {
    let mut runs = 0;
    for nslices in tier.pick(vec![1usize, 2], vec![1, 2, 3]) {
        let fx = fixture(nslices);
        let base = run_history(&fx, &BTreeMap::new());
        if !base.stored || base.foreign_stored {
            crate::common::machinery_failure("C12 repair probe: undisturbed repair did not store the block");
        }
        let first = 2 + nslices;
        let shred_positions: Vec<usize> = (first..=base.requests).collect();
        let mut histories: Vec<(String, BTreeMap<usize, Hostile>)> = Vec::new();
        for h in [Hostile::ShredCorrupted, Hostile::ShredOtherKey, Hostile::ShredFromOtherSlot] {
            histories.push((format!("{h:?}@every-shred-request"), shred_positions.iter().map(|p| (*p, h)).collect()));
            histories.push((format!("{h:?}@every-second-shred-request"), shred_positions.iter().step_by(2).map(|p| (*p, h)).collect()));
            let singles: Vec<usize> = match tier {
                Tier::Quick => vec![first, first + 1, first + 31, first + 32, base.requests],
                Tier::Thorough => shred_positions.clone(),
            };
            for p in singles.into_iter().filter(|p| *p <= base.requests) {
                histories.push((format!("{h:?}@shred-request"), [(p, h)].into_iter().collect()));
            }
        }
        let outcomes: Vec<(String, BTreeMap<usize, Hostile>, Outcome)> = histories.into_par_iter().map(|(n, d)| { let o = run_history(&fx, &d); (n, d, o) }).collect();
        for (name, d, o) in outcomes {
            runs += 1;
            let replay = json!({"oracle": "repair-admission", "slices": nslices, "hostile": d.iter().map(|(p, h)| format!("{h:?}#{p}")).collect::<Vec<_>>()});
            if let Some(p) = &o.panic {
                report.violation(format!("C12:repair-admission-panics:{name}"), p.clone(), replay);
            } else if !o.stored && d.len() <= 1 {
                report.violation(
                    format!("C12:replayed-or-unsigned-shred-consumes-the-repair-request:{name}"),
                    format!("{nslices}-slice block: one shred request was answered with a shred that must be rejected ({name}); every other request was answered correctly, yet the block was never stored - the bad answer was taken as the answer"),
                    replay,
                );
            } else if o.foreign_stored {
                report.violation(
                    format!("C12:shred-without-leader-signature-admitted-through-repair:{name}"),
                    format!("{nslices}-slice block: after repair answers carrying shreds that must be rejected (signature altered or foreign, or a shred of another slot), the blockstore holds (and would serve) such shreds"),
                    replay,
                );
            }
        }
    }
    runs
}

pub fn run(tier: Tier) -> i32 {
    let report = Report::new("C14", tier, "fault_enumeration");
    let mut evals = 0usize;
    let mut samples = Samples::new(5);
    let mut fam = Vec::new();
    for nslices in tier.pick(vec![1usize, 2], vec![1, 2, 3]) {
        let fx = fixture(nslices);
        let name = format!("{nslices}-slice-block");
        // baseline: all answers correct
        let t0 = std::time::Instant::now();
        let base = run_history(&fx, &BTreeMap::new());
        println!("  {name}: baseline stored={} requests={} timeouts={} alive={} in {:?}", base.stored, base.requests, base.timeouts, base.task_alive, t0.elapsed());
        if std::env::var("C14_BASE_ONLY").is_ok() {
            for p in [1usize, 2, 3, 40] {
                for h in ALL_HOSTILE {
                    let t0 = std::time::Instant::now();
                    println!("    trying {h:?}@{p}");
                    let o = run_history(&fx, &[(p, h)].into_iter().collect());
                    println!("    {h:?}@{p}: stored={} requests={} timeouts={} alive={} {:?}", o.stored, o.requests, o.timeouts, o.task_alive, t0.elapsed());
                }
            }
            continue;
        }
        evals += 1;
        judge(&report, &name, &BTreeMap::new(), &base, &|_| "-");
        let nreq = base.requests;
        let kind_of = move |p: usize| -> &'static str {
            if p == 1 { "last-slice-root" } else if p <= 1 + nslices { "slice-root" } else { "shred" }
        };
        // positions: all metadata requests plus a spread of shred requests
        let mut positions: Vec<usize> = (1..=(1 + nslices)).collect();
        let shred_pos: Vec<usize> = match tier {
            Tier::Quick => vec![2 + nslices, 3 + nslices, 1 + nslices + 32, 1 + nslices + 33, nreq],
            Tier::Thorough => ((2 + nslices)..=nreq).collect(),
        };
        positions.extend(shred_pos.into_iter().filter(|p| *p <= nreq));
        positions.sort();
        positions.dedup();
        let mut histories: Vec<BTreeMap<usize, Hostile>> = Vec::new();
        for p in &positions {
            for h in ALL_HOSTILE {
                histories.push([(*p, h)].into_iter().collect());
            }
        }
        // two deviations
        let pair_positions: Vec<usize> = match tier {
            Tier::Quick => vec![1, 2, 2 + nslices, 1 + nslices + 32],
            Tier::Thorough => positions.iter().copied().filter(|p| *p <= 4 + nslices || p % 16 == 0 || *p == nreq).collect(),
        };
        let pair_kinds: Vec<Hostile> = tier.pick(
            vec![Hostile::Nack, Hostile::InvalidProof, Hostile::Silence, Hostile::OtherSignedSlice],
            ALL_HOSTILE.to_vec(),
        );
        for a in &pair_positions {
            for b in &pair_positions {
                if a < b {
                    for h1 in &pair_kinds {
                        for h2 in &pair_kinds {
                            histories.push([(*a, *h1), (*b, *h2)].into_iter().collect());
                        }
                    }
                }
            }
        }
        // three deviations (thorough): metadata requests, the first shred request, the completing one
        if tier == Tier::Thorough {
            let tp = [1usize, 2, 2 + nslices, 1 + nslices + 32];
            let tk = [Hostile::Nack, Hostile::InvalidProof, Hostile::OtherSignedSlice, Hostile::SameRootOtherLastFlag];
            for a in 0..tp.len() {
                for b in (a + 1)..tp.len() {
                    for c in (b + 1)..tp.len() {
                        for h1 in tk {
                            for h2 in tk {
                                for h3 in tk {
                                    histories.push([(tp[a], h1), (tp[b], h2), (tp[c], h3)].into_iter().collect());
                                }
                            }
                        }
                    }
                }
            }
        }
        let dbg = std::env::var("C14_DEBUG").is_ok();
        let outcomes: Vec<(BTreeMap<usize, Hostile>, Outcome)> = histories.into_par_iter().map(|d| {
            if dbg { eprintln!("start {d:?}"); }
            let o = run_history(&fx, &d);
            if dbg { eprintln!("end {d:?}"); }
            (d, o)
        }).collect();
        for (d, o) in &outcomes {
            evals += 1;
            samples.push(|| json!({"block": name, "hostile": d.iter().map(|(p, h)| format!("{h:?}@{}#{p}", kind_of(*p))).collect::<Vec<_>>(), "stored": o.stored, "timeouts": o.timeouts, "requests": o.requests}));
            judge(&report, &name, d, o, &kind_of);
        }
        // environment variants: dissemination shreds already held, repair requested again
        let mut env_jobs: Vec<(BTreeMap<usize, Hostile>, Env)> = Vec::new();
        for pre in [Preheld::SameBlockPartial, Preheld::ConflictingBlock, Preheld::ConflictingBlockComplete] {
            let env = Env { preheld: pre, retrigger_after: None, sibling: 0 };
            env_jobs.push((BTreeMap::new(), env));
            let env_positions: Vec<usize> = match tier {
                Tier::Quick => vec![1, 2, 2 + nslices, 3 + nslices, 1 + nslices + 20],
                Tier::Thorough => positions.iter().copied().filter(|p| *p <= 6 + nslices || p % 8 == 0 || *p == nreq).collect(),
            };
            let env_kinds: Vec<Hostile> = tier.pick(vec![Hostile::ShredCorrupted, Hostile::OtherSignedSlice, Hostile::SameRootOtherLastFlag, Hostile::InvalidProof, Hostile::Nack, Hostile::Silence], ALL_HOSTILE.to_vec());
            for p in env_positions {
                for h in &env_kinds {
                    env_jobs.push(([(p, *h)].into_iter().collect(), env));
                }
            }
        }
        let again: Vec<usize> = match tier {
            Tier::Quick => vec![1, 2, 1 + nslices, 2 + nslices, 1 + nslices + 16, 1 + nslices + 31, 1 + nslices + 32, 1 + nslices + 33, 1 + nslices + 40, nreq.saturating_sub(1)],
            Tier::Thorough => (1..nreq).collect(),
        };
        for p in again {
            let env = Env { preheld: Preheld::Nothing, retrigger_after: Some(p), sibling: 0 };
            env_jobs.push((BTreeMap::new(), env));
            env_jobs.push(([(p + 1, Hostile::DuplicateAnswer)].into_iter().collect(), env));
            env_jobs.push(([(p + 1, Hostile::Nack)].into_iter().collect(), env));
            if tier == Tier::Thorough {
                env_jobs.push(([(p + 1, Hostile::NackReplay)].into_iter().collect(), env));
                env_jobs.push(([(p + 1, Hostile::OtherSignedSlice)].into_iter().collect(), env));
            }
        }
        // the leader's other block of the slot under repair at the same time
        for sib in [1u8, 2] {
            let env = Env { preheld: Preheld::Nothing, retrigger_after: None, sibling: sib };
            env_jobs.push((BTreeMap::new(), env));
            for p in tier.pick(vec![1usize, 2, 3, 4, 2 * nslices + 3, 2 * nslices + 40], (1..(2 * nreq)).step_by(3).collect()) {
                for h in [Hostile::Nack, Hostile::Silence, Hostile::DuplicateAnswer, Hostile::OtherSignedSlice] {
                    env_jobs.push(([(p, h)].into_iter().collect(), env));
                }
            }
        }
        let env_outcomes: Vec<(BTreeMap<usize, Hostile>, Env, Outcome)> = env_jobs.into_par_iter().map(|(d, e)| { let o = run_history_env(&fx, &d, e); (d, e, o) }).collect();
        for (d, e, o) in &env_outcomes {
            evals += 1;
            judge_env(&report, &name, d, o, &kind_of, *e);
        }
        let resp = responder_sweep(&report, &fx);
        evals += resp;
        fam.push(json!({"block": name, "requests_in_clean_repair": nreq, "histories": outcomes.len() + 1, "single_deviation_positions": positions.len(), "responder_cases": resp}));
        println!("  {name}: clean repair = {nreq} requests, histories = {}, responder cases = {resp}", outcomes.len() + 1);
    }
    let cov = json!({
        "evaluations": evals,
        "distinct_nontrivial": evals,
        "rule": "real Repair loop and real RepairRequestHandler in a paused single-threaded runtime; default = every request answered correctly by the honest peer; every history with 1 hostile answer (13 kinds: sustained NACK replay, NACK, silence, wrong variant, invalid proof, wrong index, wrong root, replay of another answer, shred/root of another validly signed slice of the leader, same root with other last flag, unsolicited answer first, duplicate answer, corrupted signature / over-long proof / inflated slice count) at every listed request position, and pairs (thorough: also triples) of hostile answers on a position/kind subset; environment variants (victim already holds a few dissemination shreds of the same block / of a conflicting block of the leader; the pool requests the same repair again at various points; the equivocating leader's other block of the slot is repaired concurrently); after the last hostile answer every request is answered correctly and up to 4 request time-outs may elapse: the repair task must be alive, nothing foreign may be stored under the requested id and the block must end up stored; plus the responder sweep (request kind x index x holding state x sender); every history / responder case is distinct and non-trivial",
        "exhaustive": true,
        "families": fam,
        "samples": samples.items,
    });
    report.finish(cov)
}

#[allow(dead_code)]
fn unused(_: Shred) {}
