//! C10: no network input or Byzantine-signed content can crash or wedge a node (E4/E5).
//!
//! Five real nodes' worth of epoch: four real `Alpenglow` nodes run in virtual time, the fifth
//! validator (19% of stake, leader of every fifth window) is the attacker: silent in consensus,
//! but everything it can validly sign and everything anyone can put on the victim's five network
//! interfaces is injected from a finite hostile menu at several protocol phases.

use std::collections::{BTreeMap, BTreeSet};
use std::sync::Mutex;
use std::time::Duration;

use alpenglow::consensus::{Cert, ConsensusMessage, Vote};
use alpenglow::crypto::merkle::SliceMerkleTree;
use alpenglow::crypto::signature::SecretKey;
use alpenglow::shredder::{Shred, ValidatedShred};
use alpenglow::types::Slot;
use alpenglow::{BlockId, Transaction};
use rayon::prelude::*;
use serde_json::{Value, json};

use crate::bsdrv::{SliceSpec, sign_block, sign_slice};
use crate::common::{Epoch, Report, Samples, Tier, bh, catch, take_thread_panics, vi};
use crate::simnet::*;
use crate::wire::*;

const STAKES: [u64; 5] = [21, 20, 20, 19, 20];
/// validator 3 also leads the very last window of the slot space ((u64::MAX / 4) % 5 == 3)
const ATTACKER: usize = 3;
const VICTIM: usize = 1;

type Packets = Vec<(u16, Vec<u8>)>;

struct Snap<'a> {
    e: &'a Epoch,
    certs: Vec<Cert>,
    finalized: u64,
}

struct Attack {
    name: String,
    class: &'static str,
    build: Box<dyn Fn(&Snap) -> Packets + Send + Sync>,
}

fn a2a(v: usize) -> u16 {
    port(v, CH_A2A)
}

fn enc_msg(m: &ConsensusMessage) -> Vec<u8> {
    wincode::serialize(m).unwrap()
}

fn shred_packets(to: usize, shreds: &[ValidatedShred], idxs: impl Iterator<Item = usize>) -> Packets {
    idxs.map(|i| (port(to, CH_DISS), wincode::serialize(shreds[i].as_shred()).unwrap())).collect()
}

/// A slice whose 64 leaves are arbitrary byte strings, validly signed by `sk`.
fn craft_raw_slice(sk: &SecretKey, slot: u64, slice: u64, is_last: bool, leaves: &[Vec<u8>]) -> Vec<Vec<u8>> {
    let tree = SliceMerkleTree::new(leaves.iter());
    let root = tree.get_root();
    let mut commit = Vec::new();
    commit.extend_from_slice(&slot.to_le_bytes());
    commit.extend_from_slice(&slice.to_le_bytes());
    commit.push(is_last as u8);
    commit.extend_from_slice(root.as_ref());
    let sig = sk.sign_bytes(&commit);
    let sig_bytes: [u8; 64] = wincode::serialize(&sig).unwrap().try_into().unwrap();
    (0..leaves.len())
        .map(|i| {
            let proof = tree.create_proof(i);
            let path: Vec<[u8; 32]> = wincode::deserialize::<Vec<[u8; 32]>>(&wincode::serialize(&proof).unwrap()).unwrap();
            let p = MShredPayload { header: MHeader { slot, slice_index: slice, is_last }, shred_index: i as u64, data: leaves[i].clone() };
            let m = MShred { payload: if i < 32 { MPayloadType::Data(p) } else { MPayloadType::Coding(p) }, sig: sig_bytes, path };
            wincode::serialize(&m).unwrap()
        })
        .collect()
}

/// Slots led by the attacker (window index = 4 mod 5).
fn attacker_slot(base_window: u64) -> u64 {
    let mut w = base_window;
    while w % 5 != ATTACKER as u64 {
        w += 1;
    }
    w * 4
}

fn menu(tier: Tier) -> Vec<Attack> {
    let mut m: Vec<Attack> = Vec::new();
    let mut add = |name: &str, class: &'static str, f: Box<dyn Fn(&Snap) -> Packets + Send + Sync>| {
        m.push(Attack { name: name.to_string(), class, build: f });
    };
    // ---- all-to-all: attacker-signed votes at edge slots, every kind, slashable pairs
    for (sname, slot_of) in [
        ("slot-0", Box::new(|_f: u64| 0u64) as Box<dyn Fn(u64) -> u64 + Send + Sync>),
        ("current", Box::new(|f: u64| f + 1)),
        ("epoch-boundary-1", Box::new(|f: u64| f + 2 * 18_000 - 1)),
        ("epoch-boundary", Box::new(|f: u64| f + 2 * 18_000)),
        ("slot-max", Box::new(|_f: u64| u64::MAX)),
        ("slot-max-3", Box::new(|_f: u64| u64::MAX - 3)),
    ] {
        let slot_of = std::sync::Arc::new(slot_of);
        let so = slot_of.clone();
        add(&format!("votes-all-kinds@{sname}"), "a2a-vote", Box::new(move |s: &Snap| {
            let slot = Slot::new(so(s.finalized));
            let sk = &s.e.sks[ATTACKER];
            let me = vi(ATTACKER);
            [
                Vote::new_notar(slot, bh("atk-a"), sk, me),
                Vote::new_notar(slot, bh("atk-b"), sk, me),
                Vote::new_skip(slot, sk, me),
                Vote::new_final(slot, sk, me),
                Vote::new_notar_fallback(slot, bh("atk-a"), sk, me),
                Vote::new_skip_fallback(slot, sk, me),
                Vote::new_final(slot, sk, me),
            ]
            .into_iter()
            .map(|v| (a2a(VICTIM), enc_msg(&ConsensusMessage::Vote(v))))
            .collect()
        }));
    }
    add("vote-unknown-signer", "a2a-vote", Box::new(|s: &Snap| {
        let v = Vote::new_skip(Slot::new(s.finalized + 1), &s.e.sks[ATTACKER], vi(ATTACKER));
        let mut mm: MMsg = to_mirror(&ConsensusMessage::Vote(v));
        let mut out = Vec::new();
        for signer in [5u64, 6, u64::MAX] {
            if let MMsg::Vote(MVote::Skip(x)) = &mut mm {
                x.signer = signer;
            }
            out.push((a2a(VICTIM), wincode::serialize(&mm).unwrap()));
        }
        out
    }));
    add("replayed-certificates", "a2a-cert", Box::new(|s: &Snap| {
        s.certs.iter().rev().take(12).flat_map(|c| {
            let b = enc_msg(&ConsensusMessage::Cert(c.clone()));
            vec![(a2a(VICTIM), b.clone()), (a2a(VICTIM), b)]
        }).collect()
    }));
    add("mutated-certificates", "a2a-cert", Box::new(|s: &Snap| {
        let mut out = Vec::new();
        for c in s.certs.iter().rev().take(4) {
            let mm: MMsg = to_mirror(&ConsensusMessage::Cert(c.clone()));
            if let MMsg::Cert(mc) = mm {
                let variants: Vec<MCert> = match mc {
                    MCert::Notar(x) => {
                        let mut a = x.clone(); a.agg.num_bits = 2048; a.agg.words = vec![u64::MAX; 32];
                        let mut b = x.clone(); b.agg.num_bits = 0; b.agg.words.clear();
                        let mut c2 = x.clone(); c2.slot = u64::MAX;
                        let mut d = x.clone(); d.stake = u64::MAX;
                        vec![MCert::Notar(a), MCert::Notar(b), MCert::FastFinal(c2), MCert::Notar(d), MCert::FastFinal(x)]
                    }
                    MCert::Skip(x) => {
                        let mut a = x.clone(); std::mem::swap(&mut a.a1, &mut a.a2);
                        let mut b = x.clone(); b.a2 = b.a1.clone();
                        let mut c2 = x.clone(); c2.a1 = None; c2.a2 = None;
                        vec![MCert::Skip(a), MCert::Skip(b), MCert::Skip(c2)]
                    }
                    other => vec![other],
                };
                for v in variants {
                    out.push((a2a(VICTIM), wincode::serialize(&MMsg::Cert(v)).unwrap()));
                }
            }
        }
        out
    }));
    // every certificate kind seen on the wire, with the signer bitmask of each aggregate replaced by
    // {2048 bits all set, one word with every real validator plus out-of-range indices, empty}
    add("certificates-with-hostile-bitmasks", "a2a-cert", Box::new(|s: &Snap| {
        let mut out = Vec::new();
        let mut latest: BTreeMap<u8, MCert> = BTreeMap::new();
        for c in s.certs.iter() {
            if let MMsg::Cert(mc) = to_mirror::<_, MMsg>(&ConsensusMessage::Cert(c.clone())) {
                let k = match &mc { MCert::Notar(_) => 0u8, MCert::NotarFallback(_) => 1, MCert::Skip(_) => 2, MCert::FastFinal(_) => 3, MCert::Final(_) => 4 };
                latest.insert(k, mc);
            }
        }
        let masks: Vec<(u64, Vec<u64>)> = vec![(2048, vec![u64::MAX; 32]), (64, vec![u64::MAX]), (6, vec![0b11_1111]), (65, vec![0b1_1111, 1]), (0, vec![])];
        for mc in latest.values() {
            for (bits, words) in &masks {
                let patch = |a: &MAgg| { let mut a = a.clone(); a.num_bits = *bits; a.words = words.clone(); a };
                let v = match mc {
                    MCert::Notar(x) => { let mut y = x.clone(); y.agg = patch(&x.agg); MCert::Notar(y) }
                    MCert::FastFinal(x) => { let mut y = x.clone(); y.agg = patch(&x.agg); MCert::FastFinal(y) }
                    MCert::Final(x) => { let mut y = x.clone(); y.agg = patch(&x.agg); MCert::Final(y) }
                    MCert::NotarFallback(x) => { let mut y = x.clone(); y.a1 = Some(patch(x.a1.as_ref().or(x.a2.as_ref()).unwrap())); y.a2 = x.a2.as_ref().map(&patch); MCert::NotarFallback(y) }
                    MCert::Skip(x) => { let mut y = x.clone(); y.a1 = Some(patch(x.a1.as_ref().or(x.a2.as_ref()).unwrap())); y.a2 = x.a2.as_ref().map(&patch); MCert::Skip(y) }
                };
                out.push((a2a(VICTIM), wincode::serialize(&MMsg::Cert(v)).unwrap()));
            }
        }
        out
    }));
    // ---- shreds signed by the attacker as leader of its own (future) windows
    let blocks: Vec<(&'static str, Box<dyn Fn(u64, &SecretKey) -> Vec<Vec<ValidatedShred>> + Send + Sync>)> = vec![
        ("parent-in-same-slot", Box::new(|slot, sk| sign_block(slot, &[SliceSpec { parent: Some((Slot::new(slot), bh("same"))), txs: vec![], raw: None }], sk).shreds.iter().map(|a| a.to_vec()).collect())),
        ("parent-in-later-slot", Box::new(|slot, sk| sign_block(slot, &[SliceSpec { parent: Some((Slot::new(slot + 9), bh("later"))), txs: vec![], raw: None }], sk).shreds.iter().map(|a| a.to_vec()).collect())),
        ("parent-is-max-slot", Box::new(|slot, sk| sign_block(slot, &[SliceSpec { parent: Some((Slot::new(u64::MAX), bh("max"))), txs: vec![], raw: None }], sk).shreds.iter().map(|a| a.to_vec()).collect())),
        ("handover-in-second-slice-to-later-slot", Box::new(|slot, sk| sign_block(slot, &[SliceSpec { parent: Some((Slot::new(slot - 1), bh("p"))), txs: vec![], raw: None }, SliceSpec { parent: Some((Slot::new(slot + 5), bh("later"))), txs: vec![vec![3; 9]], raw: None }], sk).shreds.iter().map(|a| a.to_vec()).collect())),
        ("handover-in-second-slice-to-same-slot", Box::new(|slot, sk| sign_block(slot, &[SliceSpec { parent: Some((Slot::new(slot - 1), bh("p"))), txs: vec![], raw: None }, SliceSpec { parent: Some((Slot::new(slot), bh("same"))), txs: vec![], raw: None }], sk).shreds.iter().map(|a| a.to_vec()).collect())),
        ("first-slice-without-parent", Box::new(|slot, sk| sign_block(slot, &[SliceSpec { parent: None, txs: vec![vec![1; 10]], raw: None }], sk).shreds.iter().map(|a| a.to_vec()).collect())),
        ("two-parent-switches", Box::new(|slot, sk| {
            let p = |i: u64| Some((Slot::new(slot - 1 - i), bh(&format!("p{i}"))));
            sign_block(slot, &[SliceSpec { parent: p(0), txs: vec![], raw: None }, SliceSpec { parent: p(1), txs: vec![], raw: None }, SliceSpec { parent: p(2), txs: vec![], raw: None }], sk).shreds.iter().map(|a| a.to_vec()).collect()
        })),
        ("undecodable-transactions", Box::new(|slot, sk| sign_block(slot, &[SliceSpec { parent: Some((Slot::new(slot - 1), bh("p"))), txs: vec![], raw: Some(vec![0xff; 64]) }], sk).shreds.iter().map(|a| a.to_vec()).collect())),
        ("absurd-transaction-count", Box::new(|slot, sk| {
            let mut raw = u64::MAX.to_le_bytes().to_vec();
            raw.extend_from_slice(&[0; 16]);
            sign_block(slot, &[SliceSpec { parent: Some((Slot::new(slot - 1), bh("p"))), txs: vec![], raw: Some(raw) }], sk).shreds.iter().map(|a| a.to_vec()).collect()
        })),
        ("oversize-transaction-inside-block", Box::new(|slot, sk| sign_block(slot, &[SliceSpec { parent: Some((Slot::new(slot - 1), bh("p"))), txs: vec![vec![7; 5000]], raw: None }], sk).shreds.iter().map(|a| a.to_vec()).collect())),
        ("valid-orphan-block", Box::new(|slot, sk| sign_block(slot, &[SliceSpec { parent: Some((Slot::new(slot - 1), bh("nowhere"))), txs: vec![vec![1; 30]], raw: None }], sk).shreds.iter().map(|a| a.to_vec()).collect())),
    ];
    for (bname, build) in blocks {
        let build = std::sync::Arc::new(build);
        for (wname, window) in [("own-next-window", 3u64), ("window-far-future", 4_611_686_018_427_387_899u64 - 6)] {
            let build = build.clone();
            add(&format!("block:{bname}@{wname}"), "shred-block", Box::new(move |s: &Snap| {
                let slot = attacker_slot(window);
                let sets = build(slot, &s.e.sig_sks[ATTACKER]);
                sets.iter().flat_map(|set| shred_packets(VICTIM, set, 0..40)).collect()
            }));
        }
    }
    // contradictory last flags, both orders; conflicting slices; slice index 1023
    for order in ["last-first", "last-second"] {
        add(&format!("contradictory-last-flags:{order}"), "shred-equivocation", Box::new(move |s: &Snap| {
            let slot = attacker_slot(3) + 1;
            let sk = &s.e.sig_sks[ATTACKER];
            let sp = SliceSpec { parent: Some((Slot::new(slot - 1), bh("p"))), txs: vec![], raw: None };
            let (_, a) = sign_slice(slot, 0, true, &sp, sk);
            let (_, b) = sign_slice(slot, 3, false, &SliceSpec { parent: None, ..sp.clone() }, sk);
            let (x, y) = if order == "last-first" { (&a, &b) } else { (&b, &a) };
            let mut p = shred_packets(VICTIM, &x[..], 0..3);
            p.extend(shred_packets(VICTIM, &y[..], 0..3));
            p.extend(shred_packets(VICTIM, &x[..], 3..40));
            p
        }));
    }
    add("conflicting-slices-same-index", "shred-equivocation", Box::new(|s: &Snap| {
        let slot = attacker_slot(3) + 2;
        let sk = &s.e.sig_sks[ATTACKER];
        let (_, a) = sign_slice(slot, 0, true, &SliceSpec { parent: Some((Slot::new(slot - 1), bh("p"))), txs: vec![vec![1; 9]], raw: None }, sk);
        let (_, b) = sign_slice(slot, 0, true, &SliceSpec { parent: Some((Slot::new(slot - 1), bh("p"))), txs: vec![vec![2; 9]], raw: None }, sk);
        let mut p = shred_packets(VICTIM, &a[..], 0..20);
        p.extend(shred_packets(VICTIM, &b[..], 20..40));
        p
    }));
    add("equivocation-in-last-window-of-slot-space", "shred-equivocation", Box::new(|s: &Snap| {
        // the attacker leads the window containing u64::MAX - k for a suitable k
        let slot = u64::MAX - 3;
        assert_eq!((slot / 4) % 5, ATTACKER as u64);
        let sk = &s.e.sig_sks[ATTACKER];
        let mut out = Vec::new();
        for sl in [slot, slot + 1] {
            let (_, a) = sign_slice(sl, 0, true, &SliceSpec { parent: Some((Slot::new(7), bh("p"))), txs: vec![vec![1; 9]], raw: None }, sk);
            let (_, b) = sign_slice(sl, 0, true, &SliceSpec { parent: Some((Slot::new(7), bh("p"))), txs: vec![vec![2; 9]], raw: None }, sk);
            out.extend(shred_packets(VICTIM, &a[..], 0..2));
            out.extend(shred_packets(VICTIM, &b[..], 2..4));
        }
        out
    }));
    add("contradictory-last-flags-in-last-window-of-slot-space", "shred-equivocation", Box::new(|s: &Snap| {
        let sk = &s.e.sig_sks[ATTACKER];
        let mut out = Vec::new();
        for slot in [u64::MAX - 3, u64::MAX] {
            let sp = SliceSpec { parent: Some((Slot::new(7), bh("p"))), txs: vec![], raw: None };
            let (_, a) = sign_slice(slot, 0, true, &sp, sk);
            let (_, b) = sign_slice(slot, 3, false, &SliceSpec { parent: None, ..sp.clone() }, sk);
            out.extend(shred_packets(VICTIM, &a[..], 0..3));
            out.extend(shred_packets(VICTIM, &b[..], 0..3));
        }
        out
    }));
    add("valid-block-in-last-slot", "shred-block", Box::new(|s: &Snap| {
        let sk = &s.e.sig_sks[ATTACKER];
        let blk = sign_block(u64::MAX, &[SliceSpec { parent: Some((Slot::new(u64::MAX - 1), bh("p"))), txs: vec![], raw: None }], sk);
        shred_packets(VICTIM, &blk.shreds[0][..], 0..40)
    }));
    add("slice-index-1023", "shred-block", Box::new(|s: &Snap| {
        let slot = attacker_slot(3) + 3;
        let sk = &s.e.sig_sks[ATTACKER];
        let (_, a) = sign_slice(slot, 1023, true, &SliceSpec { parent: None, txs: vec![], raw: None }, sk);
        let (_, b) = sign_slice(slot, 1022, false, &SliceSpec { parent: None, txs: vec![], raw: None }, sk);
        let mut p = shred_packets(VICTIM, &a[..], 0..40);
        p.extend(shred_packets(VICTIM, &b[..], 0..40));
        p
    }));
    for (sname, sizes) in [
        ("odd-shard-size", vec![33usize; 64]),
        ("zero-shard-size", vec![0usize; 64]),
        ("over-long-shards", vec![1300usize; 64]),
        ("mixed-shard-sizes", (0..64).map(|i| 32 + 2 * (i % 5)).collect::<Vec<_>>()),
        ("non-codeword-coding-shreds", vec![64usize; 64]),
    ] {
        add(&format!("raw-slice:{sname}"), "shred-raw", Box::new(move |s: &Snap| {
            let slot = attacker_slot(8);
            let leaves: Vec<Vec<u8>> = sizes.iter().enumerate().map(|(i, l)| vec![(i as u8).wrapping_mul(37).wrapping_add(1); *l]).collect();
            craft_raw_slice(&s.e.sig_sks[ATTACKER], slot, 0, true, &leaves).into_iter().take(48).map(|b| (port(VICTIM, CH_DISS), b)).collect()
        }));
    }
    add("tag-flipped-and-corrupted-genuine-shreds", "shred-raw", Box::new(|s: &Snap| {
        let slot = attacker_slot(8) + 1;
        let sk = &s.e.sig_sks[ATTACKER];
        let (_, a) = sign_slice(slot, 0, true, &SliceSpec { parent: Some((Slot::new(slot - 1), bh("p"))), txs: vec![vec![1; 100]], raw: None }, sk);
        let mut out = Vec::new();
        for (i, v) in a.iter().enumerate().take(40) {
            let mut m: MShred = to_mirror::<Shred, MShred>(v.as_shred());
            match i % 4 {
                0 => m.flip_tag(),
                1 => m.sig[0] ^= 1,
                2 => m.path.truncate(2),
                _ => {}
            }
            out.push((port(VICTIM, CH_DISS), wincode::serialize(&m).unwrap()));
        }
        out
    }));
    add("shreds-for-victims-own-window", "shred-raw", Box::new(|s: &Snap| {
        let slot = 4 * (VICTIM as u64 + 5); // window 6 is led by the victim
        let sk = &s.e.sig_sks[ATTACKER];
        let (_, a) = sign_slice(slot, 0, true, &SliceSpec { parent: Some((Slot::new(slot - 1), bh("p"))), txs: vec![], raw: None }, sk);
        shred_packets(VICTIM, &a[..], 0..40)
    }));
    // ---- repair interfaces
    add("repair-requests-boundaries", "repair-request", Box::new(|s: &Snap| {
        let mut out = Vec::new();
        let known: Vec<MBlockId> = s.certs.iter().filter_map(|c| c.block_hash().map(|h| MBlockId { slot: c.slot().inner(), hash: wincode::serialize(h).unwrap().try_into().unwrap() })).take(3).collect();
        let mut ids = known;
        ids.push(MBlockId { slot: 3, hash: [9; 32] });
        ids.push(MBlockId { slot: u64::MAX, hash: [0; 32] });
        for id in ids {
            for sender in [ATTACKER as u64, 5, u64::MAX] {
                let mut reqs = vec![MReqType::LastSliceRoot(id.clone())];
                for sl in [0u64, 1, 2, 1023] {
                    reqs.push(MReqType::SliceRoot(id.clone(), sl));
                    for sh in [0u64, 63] {
                        reqs.push(MReqType::Shred(id.clone(), sl, sh));
                    }
                }
                for r in reqs {
                    out.push((port(VICTIM, CH_RESP), wincode::serialize(&MRequest { sender, req: r }).unwrap()));
                }
            }
        }
        out
    }));
    add("repair-responses-unsolicited", "repair-response", Box::new(|s: &Snap| {
        let id = MBlockId { slot: s.finalized.max(1), hash: [4; 32] };
        let sk = &s.e.sig_sks[ATTACKER];
        let slot = attacker_slot(3);
        let (_, a) = sign_slice(slot, 0, true, &SliceSpec { parent: Some((Slot::new(slot - 1), bh("p"))), txs: vec![], raw: None }, sk);
        let ms: MShred = to_mirror::<Shred, MShred>(a[0].as_shred());
        let rs = vec![
            MResponse::Nack(MReqType::LastSliceRoot(id.clone())),
            MResponse::LastSliceRoot(MReqType::LastSliceRoot(id.clone()), 1023, [1; 32], vec![[2; 32]; 33]),
            MResponse::LastSliceRoot(MReqType::SliceRoot(id.clone(), 0), 0, [1; 32], vec![]),
            MResponse::SliceRoot(MReqType::SliceRoot(id.clone(), 5), [1; 32], vec![[2; 32]; 10]),
            MResponse::Shred(MReqType::Shred(id.clone(), 0, 0), ms.clone()),
            MResponse::Shred(MReqType::Shred(MBlockId { slot, hash: [4; 32] }, 0, 0), ms),
        ];
        rs.into_iter().map(|r| (port(VICTIM, CH_REQ), wincode::serialize(&r).unwrap())).collect()
    }));
    // ---- client transactions
    for (tname, sizes, count) in [("empty-and-max", vec![0usize, 512], 4usize), ("oversize-513", vec![513], 4), ("datagram-max", vec![1480], 40), ("flood-large", vec![1400, 1480, 700], 120), ("flood-of-one-byte-transactions", vec![1], 3000), ("flood-of-empty-transactions", vec![0], 4000)] {
        add(&format!("transactions:{tname}"), "transaction", Box::new(move |_s: &Snap| {
            (0..count).map(|i| (port(VICTIM, CH_TX), wincode::serialize(&Transaction(vec![i as u8; sizes[i % sizes.len()]])).unwrap())).collect()
        }));
    }
    // ---- garbage on every interface
    add("garbage-on-all-interfaces", "garbage", Box::new(|_s: &Snap| {
        let mut out = Vec::new();
        for ch in [CH_A2A, CH_DISS, CH_REQ, CH_RESP, CH_TX] {
            for b in [vec![], vec![0u8], vec![0xff; 7], vec![1, 0, 0, 0, 0xff, 0xff, 0xff, 0xff, 0xff, 0xff, 0xff, 0xff], vec![0u8; 1500], vec![0xffu8; 1500]] {
                out.push((port(VICTIM, ch), b));
            }
        }
        out
    }));
    let _ = tier;
    m
}

pub struct Outcome {
    pub panics: Vec<String>,
    pub finalized: Vec<Option<u64>>,
    victim_votes_late: usize,
    responder_answers: usize,
    packets: usize,
    /// slot -> (fast-final, final, skip, notar) certificates seen on the wire
    pub certs: BTreeMap<u64, (bool, bool, bool, bool)>,
}

/// How the attacker, as leader of window 3 (slots 12..15), treats the next leader (validator 4).
#[derive(Clone, Copy, Debug, PartialEq, Eq)]
pub enum Handover {
    None,
    /// slot 15: one block for the next leader, another one for everybody else
    Equivocate,
    /// slot 15: the block reaches only the next leader, everybody else times out
    OnlyNextLeader,
    /// slots 14 and 15 reach only the next leader
    LastTwoOnlyNextLeader,
    /// like `OnlyNextLeader`, and a client streams transactions to the next leader whose sizes fill
    /// every slice of the block it produces optimistically to the last byte (any 63 consecutive
    /// transactions of the stream are 62 x 512 and 1 x 502 bytes = exactly one slice without parent)
    OnlyNextLeaderFullSlices,
}

/// C02's view of the hand-over runs: the whole cluster, 16 s.
pub fn run_handover(variant: Handover, stakes: &[u64]) -> Result<Outcome, String> {
    run_one_with(&[], 1_000_000, 16_000, variant, stakes)
}

/// One run: the attack is injected at `phase_ms`; a second attack (pairs) right after it.
fn run_one(attacks: &[&Attack], phase_ms: u64, total_ms: u64, handover: Handover) -> Result<Outcome, String> {
    run_one_with(attacks, phase_ms, total_ms, handover, &STAKES)
}

fn run_one_with(attacks: &[&Attack], phase_ms: u64, total_ms: u64, handover: Handover, stakes: &[u64]) -> Result<Outcome, String> {
    let _ = take_thread_panics();
    catch(|| {
        let rt = runtime(11);
        rt.block_on(async {
            let absent: BTreeSet<usize> = [ATTACKER].into_iter().collect();
            let cluster = Cluster::start(stakes, Duration::from_millis(5), &absent);
            // the attacker can still receive (its ports exist as sinks)
            cluster.hub.inner.lock().unwrap().crashed.clear();
            let mut t = 0u64;
            let mut injected = false;
            let mut packets = 0usize;
            let mut probe_sent = false;
            let mut handover_done = handover == Handover::None;
            while t < total_ms {
                tokio::time::sleep(Duration::from_millis(100)).await;
                t += 100;
                if !injected && t >= phase_ms {
                    injected = true;
                    let fin = cluster.finalized().await[VICTIM].unwrap_or(0);
                    let certs: Vec<Cert> = cluster.hub.inner.lock().unwrap().certs.iter().map(|c| c.2.clone()).collect();
                    let snap = Snap { e: &cluster.epoch, certs, finalized: fin };
                    for a in attacks {
                        for (i, (to, bytes)) in (a.build)(&snap).into_iter().enumerate() {
                            packets += 1;
                            cluster.hub.inject(to, bytes, Duration::from_millis(1 + (i as u64 % 7)));
                        }
                    }
                }
                if !handover_done {
                    handover_done = handover_attack(&cluster, t, handover).await;
                }
                if !probe_sent && t + 2000 >= total_ms {
                    probe_sent = true;
                    // a good repair request from the attacker for a block the victim holds
                    let id = cluster.hub.inner.lock().unwrap().certs.iter().rev().find_map(|c| match &c.2 {
                        Cert::Notar(n) => Some(MBlockId { slot: c.2.slot().inner(), hash: wincode::serialize(n.block_hash()).unwrap().try_into().unwrap() }),
                        _ => None,
                    });
                    if let Some(id) = id {
                        cluster.hub.inner.lock().unwrap().to_attacker = 0;
                        let req = MRequest { sender: ATTACKER as u64, req: MReqType::LastSliceRoot(id) };
                        cluster.hub.inject(port(VICTIM, CH_RESP), wincode::serialize(&req).unwrap(), Duration::from_millis(1));
                    }
                }
            }
            let finalized = cluster.finalized().await;
            let g = cluster.hub.inner.lock().unwrap();
            let late = g.votes.iter().filter(|(at, from, _)| *from == VICTIM && *at + 3000 >= total_ms).count();
            if std::env::var("C10_HANDOVER_DEBUG").is_ok() && handover != Handover::None {
                // debugging aid: the consensus traffic around the hand-over
                let mut lines: Vec<(u64, String)> = Vec::new();
                for (at, from, v) in &g.votes {
                    if (14..=17).contains(&v.slot().inner()) {
                        lines.push((*at, format!("t={at} v{from} vote kind {} slot {}", crate::nodesys::vote_tag(v), v.slot().inner())));
                    }
                }
                for (at, from, c) in &g.certs {
                    if (14..=17).contains(&c.slot().inner()) {
                        lines.push((*at, format!("t={at} v{from} CERT {:?} slot {}", crate::pooldrv::cert_kind(c), c.slot().inner())));
                    }
                }
                lines.sort();
                lines.dedup();
                println!("--- {handover:?}");
                for (_, l) in lines {
                    println!("{l}");
                }
            }
            let mut certs: BTreeMap<u64, (bool, bool, bool, bool)> = BTreeMap::new();
            for (_, _, c) in &g.certs {
                let e = certs.entry(c.slot().inner()).or_default();
                match c {
                    Cert::FastFinal(_) => e.0 = true,
                    Cert::Final(_) => e.1 = true,
                    Cert::Skip(_) => e.2 = true,
                    Cert::Notar(_) => e.3 = true,
                    _ => {}
                }
            }
            Outcome { panics: take_thread_panics(), finalized, victim_votes_late: late, responder_answers: g.to_attacker, packets, certs }
        })
    })
}

/// The attacker leads window 3 (slots 12..15): it builds a proper chain 12..14 for everybody and
/// equivocates in slot 15, giving the next leader (validator 4, window 4) a different block than the rest.
async fn handover_attack(cluster: &Cluster, t: u64, variant: Handover) -> bool {
    // wait until slot 15's block is notarized, then act once
    let parent: Option<BlockId> = cluster.hub.inner.lock().unwrap().certs.iter().find_map(|c| match &c.2 {
        Cert::Notar(n) if c.2.slot().inner() == 11 => Some((Slot::new(11), n.block_hash().clone())),
        _ => None,
    });
    let Some(mut parent) = parent else { return t > 12_000 };
    let sk = &cluster.epoch.sig_sks[ATTACKER];
    let mut delay = 5u64;
    for slot in 12..=15u64 {
        let mk = |tag: u8| sign_block(slot, &[SliceSpec { parent: Some(parent.clone()), txs: vec![vec![tag; 20]], raw: None }], sk);
        let main = mk(1);
        let alt = mk(2);
        for node in [0usize, 1, 2, 4] {
            let withheld = node != 4 && (((variant == Handover::OnlyNextLeader || variant == Handover::OnlyNextLeaderFullSlices) && slot == 15) || (variant == Handover::LastTwoOnlyNextLeader && slot >= 14));
            if withheld {
                continue;
            }
            let blk = if variant == Handover::Equivocate && slot == 15 && node == 4 { &alt } else { &main };
            for s in blk.shreds[0].iter() {
                cluster.hub.inject(port(node, CH_DISS), wincode::serialize(s.as_shred()).unwrap(), Duration::from_millis(delay));
            }
        }
        parent = (Slot::new(slot), main.hash.clone());
        delay += 380;
    }
    if variant == Handover::OnlyNextLeaderFullSlices {
        // one transaction every 2 ms from shortly before the next leader starts its window
        for i in 0..2500u64 {
            let len = if i % 63 == 61 { 502 } else { 512 };
            let tx = Transaction(vec![(i % 251) as u8; len]);
            cluster.hub.inject(port(4, CH_TX), wincode::serialize(&tx).unwrap(), Duration::from_millis(1045 + 2 * i));
        }
    }
    true
}

fn judge(report: &Report, name: &str, class: &str, phase: u64, o: &Outcome, baseline_fin: u64) {
    let replay = json!({"attack": name, "phase_ms": phase, "packets": o.packets});
    if !o.panics.is_empty() {
        let msg = &o.panics[0];
        report.violation(
            format!("C10:node-task-panicked:{name}"),
            format!("after '{name}' at {phase} ms a node task panicked: {msg:.200} ({} panics)", o.panics.len()),
            replay.clone(),
        );
        return;
    }
    let vf = o.finalized[VICTIM].unwrap_or(0);
    if vf + 12 < baseline_fin {
        report.violation(
            format!("C10:victim-stopped-finalizing:{name}"),
            format!("after '{name}' ({class}) at {phase} ms the victim's finalized slot is {vf}, the undisturbed run reaches {baseline_fin}; all: {:?}", o.finalized),
            replay.clone(),
        );
    }
    if o.victim_votes_late == 0 {
        report.violation(format!("C10:victim-stopped-voting:{name}"), format!("no vote from the victim in the last 3 s (finalized {:?})", o.finalized), replay.clone());
    }
    if o.responder_answers == 0 {
        report.violation(format!("C10:victim-repair-responder-silent:{name}"), "a well-formed repair request at the end of the run got no answer".to_string(), replay);
    }
}

/// The real UDP interface (`UdpNetwork`, the Linux `recvmmsg` path) on the loopback device: every
/// datagram size of the list, three fill patterns, sandwiched between two honest votes; both honest
/// votes must be delivered and the receiving task must survive.
fn udp_interface_sweep(report: &Report) -> usize {
    use alpenglow::network::{Network, UdpNetwork};
    let e = crate::common::make_epoch(&[10, 10, 10]);
    let honest = enc_msg(&ConsensusMessage::Vote(Vote::new_skip(Slot::new(3), &e.sks[1], vi(1))));
    let rt = tokio::runtime::Builder::new_multi_thread().worker_threads(2).enable_all().build().unwrap();
    let sizes: Vec<usize> = vec![0, 1, 2, 100, 1399, 1400, 1471, 1472, 1473, 1499, 1500, 1501, 1502, 1504, 1536, 2000, 2999, 3000, 4096, 5500, 9000, 16_000, 65_000];
    let mut cases = 0;
    for size in &sizes {
        for fill in ["zeros", "ones", "honest-vote-padded"] {
            cases += 1;
            let payload: Vec<u8> = match fill {
                "zeros" => vec![0u8; *size],
                "ones" => vec![0xffu8; *size],
                _ => honest.iter().copied().chain(std::iter::repeat(0x5a)).take(*size).collect(),
            };
            let replay = json!({"interface": "UdpNetwork on loopback", "datagram_bytes": size, "fill": fill});
            let honest2 = honest.clone();
            let r: Result<&'static str, String> = rt.block_on(async {
                let net: UdpNetwork<ConsensusMessage, ConsensusMessage> = UdpNetwork::new_with_any_port();
                let port = net.port();
                let sock = std::net::UdpSocket::bind("127.0.0.1:0").map_err(|e| format!("machinery: {e}"))?;
                let to = ("127.0.0.1", port);
                sock.send_to(&honest2, to).map_err(|e| format!("machinery: {e}"))?;
                if sock.send_to(&payload, to).is_err() {
                    return Ok("datagram could not be sent");
                }
                sock.send_to(&honest2, to).map_err(|e| format!("machinery: {e}"))?;
                let h = tokio::spawn(async move {
                    let mut got = 0;
                    while got < 2 {
                        match net.receive().await {
                            Ok(ConsensusMessage::Vote(_)) => got += 1,
                            Ok(_) => {}
                            Err(_) => break,
                        }
                    }
                    got
                });
                match tokio::time::timeout(Duration::from_secs(5), h).await {
                    Ok(Ok(2)) => Ok("both honest votes delivered"),
                    Ok(Ok(n)) => Err(format!("receive() failed after {n} honest votes")),
                    Ok(Err(j)) => Err(format!("the receiving task died: {j}")),
                    Err(_) => Err("the interface stopped delivering: the honest vote sent after the datagram never arrived within 5 s".to_string()),
                }
            });
            let _ = take_thread_panics();
            match r {
                Ok(_) => {}
                Err(m) if m.starts_with("machinery") => crate::common::machinery_failure(&m),
                Err(m) => report.violation(format!("C10:udp-interface-wedged:{}", if *size > 1500 { "oversize-datagram" } else { "datagram-within-mtu" }), format!("a {size}-byte datagram ({fill}) on a real UdpNetwork socket: {m}"), replay),
            }
        }
    }
    cases
}

/// One real Pool + Votor core, genuine (validly aggregated) certificates of every kind for slots of
/// three windows plus blocks and timeouts, in every order up to the depth bound: certificates are
/// the one input any peer can replay at any time, in any order, to a node in any state. No order
/// may crash the voting core.
fn cert_order_sweep(report: &Report, tier: Tier) -> Value {
    use crate::engine::{BfsLimits, bfs};
    use crate::nodesys::{NodeAlphabet, NodeSys};
    use crate::pooldrv::{Blk, CK, GENESIS};
    use crate::poolsys::cert;
    let x3 = std::sync::Arc::new(crate::common::make_epoch(&[10, 45, 45]));
    let b = |slot: u64, idx: u8| Blk { slot, idx };
    let mut foreign = Vec::new();
    for s in [1u64, 3, 5, 9] {
        foreign.push(cert(CK::Notar, s, 0, &[1, 2], &[]));
        foreign.push(cert(CK::Final, s, 0, &[1, 2], &[]));
    }
    for s in [2u64, 5, 9] {
        foreign.push(cert(CK::FastFinal, s, 0, &[1, 2], &[]));
    }
    for s in [1u64, 4, 8] {
        foreign.push(cert(CK::Skip, s, 0, &[1], &[2]));
    }
    foreign.push(cert(CK::NotarFb, 3, 1, &[1], &[2]));
    foreign.push(cert(CK::NotarFb, 6, 1, &[1], &[2]));
    let alpha = NodeAlphabet {
        foreign,
        blocks: vec![(b(1, 0), GENESIS), (b(5, 0), b(3, 0)), (b(9, 0), b(5, 0))],
        invalid: vec![],
        first_shreds: vec![],
        windows: vec![0, 4],
        forge: vec![],
    };
    let mut out = Vec::new();
    {
        // slots 2 and 3 are fast-finalized before anything certifies slot 1 (the watermark is stuck
        // below it) while the Byzantine leader registers further children of the slot-1 block
        // inside and beyond the finalized run; then slot 1's certificate arrives
        let alpha2 = NodeAlphabet {
            foreign: vec![
                cert(CK::FastFinal, 1, 0, &[1, 2], &[]),
                cert(CK::FastFinal, 2, 0, &[1, 2], &[]),
                cert(CK::FastFinal, 3, 0, &[1, 2], &[]),
                cert(CK::Notar, 1, 0, &[1, 2], &[]),
            ],
            blocks: vec![(b(2, 1), b(1, 0)), (b(3, 1), b(1, 0)), (b(4, 1), b(1, 0)), (b(2, 0), b(1, 0)), (b(3, 0), b(2, 0))],
            invalid: vec![],
            first_shreds: vec![],
            windows: vec![0],
            forge: vec![],
        };
        let mut sys = NodeSys::new("children-of-an-uncertified-block-around-a-stuck-watermark", x3.clone(), 0, alpha2, 0);
        sys.crash_focus = Some("C10");
        let limits = BfsLimits::new(tier.pick(5, 8), tier.pick(400_000, 20_000_000), tier.pick(15, 200));
        let st = bfs(&sys, &sys.name, &limits, report);
        println!("  {}: states={} transitions={} depth_completed={} capped={:?}", sys.name, st.states, st.transitions, st.depth_completed, st.capped);
        let mut j = st.to_json();
        j["system"] = json!(sys.name);
        out.push(j);
    }
    for lag in tier.pick(vec![0usize], vec![0, 1]) {
        let mut sys = NodeSys::new(&format!("genuine-certificates-in-any-order-lag{lag}"), x3.clone(), 0, alpha.clone(), lag);
        sys.crash_focus = Some("C10");
        let limits = BfsLimits::new(tier.pick(4, 6), tier.pick(400_000, 20_000_000), tier.pick(15, 200));
        let st = bfs(&sys, &sys.name, &limits, report);
        println!("  {}: states={} transitions={} depth_completed={} capped={:?}", sys.name, st.states, st.transitions, st.depth_completed, st.capped);
        let mut j = st.to_json();
        j["system"] = json!(sys.name);
        j["alphabet"] = json!(sys.alpha.foreign.iter().map(|o| o.show()).collect::<Vec<_>>());
        out.push(j);
    }
    json!(out)
}

/// The leader's slice-filling routine (the real `produce_slice_payload`, through a hook) on client
/// transactions of every size: 61 full-size transactions, then one of every size 0..=513, then a
/// second one from a boundary menu, then full-size ones again - with and without a parent in the
/// slice. Slices are produced until the queue is empty. No call may panic, no payload may exceed
/// what a slice holds (the producer `expect`s shredding to succeed), every produced slice must be
/// accepted by the real shredder, and the transactions within the size limit come out again in
/// order, each exactly once.
fn slice_filling_sweep(report: &Report, tier: Tier) -> usize {
    use alpenglow::consensus::verif::verif_produce_slice_payload;
    use alpenglow::shredder::{MAX_DATA_PER_SLICE, RegularShredder, Shredder};
    use alpenglow::types::Slice;
    let second_menu: Vec<usize> = tier.pick(vec![0, 1, 503, 504, 505, 511, 512], (0..=8).chain(496..=513).collect());
    let firsts: Vec<usize> = (0..=513).collect();
    let lsk = crate::bsdrv::leader_key();
    let cases = std::sync::atomic::AtomicUsize::new(0);
    firsts.par_iter().for_each(|d1| {
        let rt = tokio::runtime::Builder::new_current_thread().enable_all().start_paused(true).build().unwrap();
        let mut shredder = RegularShredder::default();
        for d2 in &second_menu {
            for with_parent in [false, true] {
                for lead in [61usize, 60, 0] {
                    cases.fetch_add(1, std::sync::atomic::Ordering::Relaxed);
                    let mut sizes: Vec<usize> = vec![512; lead];
                    sizes.extend([*d1, *d2, 512, 512, 512]);
                    let txs: Vec<Transaction> = sizes.iter().enumerate().map(|(i, l)| Transaction(vec![(i as u8).wrapping_mul(37).wrapping_add(1); *l])).collect();
                    let want: Vec<Vec<u8>> = txs.iter().filter(|t| t.0.len() <= alpenglow::MAX_TRANSACTION_SIZE).map(|t| t.0.clone()).collect();
                    let replay = json!({"oracle": "slice-filling", "transaction_sizes": format!("{lead} x 512, {d1}, {d2}, 3 x 512"), "slice_carries_parent": with_parent});
                    let parent: Option<BlockId> = if with_parent { Some((Slot::new(3), bh("slice-parent"))) } else { None };
                    let r = catch(std::panic::AssertUnwindSafe(|| {
                        rt.block_on(async {
                            let (net, _out, tx_in) = crate::c14::endpoint::<Transaction, Transaction>();
                            for t in &txs {
                                tx_in.send(t.clone()).unwrap();
                            }
                            let mut payloads: Vec<Vec<u8>> = Vec::new();
                            // enough calls to drain the queue; an empty queue ends a call at its deadline
                            for _ in 0..6 {
                                let (p, _left) = verif_produce_slice_payload(&net, parent.clone(), Duration::from_millis(400)).await;
                                payloads.push(Vec::<u8>::from(p));
                            }
                            payloads
                        })
                    }));
                    let payloads = match r {
                        Err(p) => {
                            report.violation("C10:block-producer-panics-on-client-transactions".to_string(), format!("transactions of sizes {lead} x 512, {d1}, {d2}, 3 x 512 (parent in slice: {with_parent}): {p:.160}"), replay);
                            continue;
                        }
                        Ok(p) => p,
                    };
                    let mut got: Vec<Vec<u8>> = Vec::new();
                    let mut bad: Option<String> = None;
                    for (k, bytes) in payloads.iter().enumerate() {
                        if bytes.len() > MAX_DATA_PER_SLICE {
                            bad = Some(format!("slice {k} carries {} bytes, a slice holds at most {MAX_DATA_PER_SLICE}", bytes.len()));
                            break;
                        }
                        // Option<BlockId> | u64 data length | u64 count | (u64 length, bytes)*
                        let mut o = if bytes.first() == Some(&1) { 1 + 8 + 32 } else { 1 };
                        let rd = |o: &mut usize| -> Option<u64> { let v = bytes.get(*o..*o + 8)?; *o += 8; Some(u64::from_le_bytes(v.try_into().unwrap())) };
                        let parsed = (|| {
                            let dlen = rd(&mut o)? as usize;
                            if o + dlen != bytes.len() { return None; }
                            let n = rd(&mut o)?;
                            for _ in 0..n {
                                let l = rd(&mut o)? as usize;
                                got.push(bytes.get(o..o + l)?.to_vec());
                                o += l;
                            }
                            if o == bytes.len() { Some(()) } else { None }
                        })();
                        if parsed.is_none() {
                            bad = Some(format!("slice {k} ({} bytes) is not a well-formed payload", bytes.len()));
                            break;
                        }
                        // the producer shreds exactly this and expects success
                        let data_off = if with_parent { 1 + 8 + 32 + 8 } else { 1 + 8 };
                        let slice = Slice { slot: Slot::new(4), slice_index: crate::c11::slice_index(k), is_last: false, parent: parent.clone(), data: bytes[data_off..].to_vec() };
                        if let Err(e) = shredder.shred(&slice, &lsk) {
                            bad = Some(format!("slice {k} ({} bytes) is refused by the shredder: {e:?}", bytes.len()));
                            break;
                        }
                    }
                    if bad.is_none() && got != want {
                        bad = Some(format!("{} transactions within the size limit went in, {} came out (or in another order)", want.len(), got.len()));
                    }
                    if let Some(b) = bad {
                        report.violation("C10:block-producer-mishandles-client-transactions".to_string(), format!("transactions of sizes {lead} x 512, {d1}, {d2}, 3 x 512 (parent in slice: {with_parent}): {b}"), replay);
                    }
                }
            }
        }
    });
    cases.load(std::sync::atomic::Ordering::Relaxed)
}

pub fn run(tier: Tier) -> i32 {
    let report = Report::new("C10", tier, "fault_enumeration");
    let cert_orders = cert_order_sweep(&report, tier);
    let repair_probe_runs = if crate::common::replay_req().is_some() { 0 } else { crate::c14::c10_repair_crash_probe(&report, tier) };
    println!("  repair crash probe: {repair_probe_runs} histories");
    let filling_cases = slice_filling_sweep(&report, tier);
    println!("  slice filling sweep: {filling_cases} transaction sequences");
    let udp_cases = udp_interface_sweep(&report);
    println!("  udp interface sweep: {udp_cases} datagrams");
    let total_ms = 12_000u64;
    let mut attacks = menu(tier);
    if let Ok(f) = std::env::var("C10_ONLY") {
        // debugging aid: restrict the menu to attacks whose name contains the given text
        attacks.retain(|a| a.name.contains(&f));
    }
    // undisturbed baseline (attacker silent)
    let base = run_one(&[], 1_000_000, total_ms, Handover::None);
    let baseline_fin = match &base {
        Ok(o) => {
            if !o.panics.is_empty() || o.victim_votes_late == 0 || o.responder_answers == 0 {
                crate::common::machinery_failure(&format!("C10 baseline run unhealthy: panics {:?}, late votes {}, responder answers {}", o.panics, o.victim_votes_late, o.responder_answers));
            }
            o.finalized[VICTIM].unwrap_or(0)
        }
        Err(p) => crate::common::machinery_failure(&format!("C10 baseline panicked: {p}")),
    };
    println!("  baseline: victim finalized slot {baseline_fin} after {total_ms} ms");
    let phases: Vec<u64> = tier.pick(vec![300, 2000], vec![300, 1000, 2000, 5000]);
    let mut jobs: Vec<(Vec<usize>, u64)> = Vec::new();
    for (i, _) in attacks.iter().enumerate() {
        for p in &phases {
            jobs.push((vec![i], *p));
        }
    }
    if tier == Tier::Thorough {
        // ordered pairs across classes at one phase
        for i in 0..attacks.len() {
            for j in 0..attacks.len() {
                if i != j && attacks[i].class != attacks[j].class && (i + 3 * j) % 5 == 0 {
                    jobs.push((vec![i, j], 2000));
                }
            }
        }
    }
    let samples = Mutex::new(Samples::new(5));
    let evals = std::sync::atomic::AtomicUsize::new(1);
    jobs.par_iter().for_each(|(idx, phase)| {
        let sel: Vec<&Attack> = idx.iter().map(|i| &attacks[*i]).collect();
        let name = sel.iter().map(|a| a.name.clone()).collect::<Vec<_>>().join(" + ");
        let class = sel.iter().map(|a| a.class).collect::<Vec<_>>().join("+");
        evals.fetch_add(1, std::sync::atomic::Ordering::Relaxed);
        match run_one(&sel, *phase, total_ms, Handover::None) {
            Err(p) => report.violation(format!("C10:simulation-panicked:{name}"), p, json!({"attack": name, "phase_ms": phase})),
            Ok(o) => {
                samples.lock().unwrap().push(|| json!({"attack": name, "class": class, "phase_ms": phase, "packets": o.packets, "victim_finalized": o.finalized[VICTIM]}));
                judge(&report, &name, &class, *phase, &o, baseline_fin);
            }
        }
    });
    // hand-over equivocation by the attacker as previous leader (longer run)
    evals.fetch_add(1, std::sync::atomic::Ordering::Relaxed);
    match run_one(&[], 1_000_000, 16_000, Handover::Equivocate) {
        Err(p) => report.violation("C10:simulation-panicked:handover-equivocation".to_string(), p, json!({"attack": "handover-equivocation"})),
        Ok(o) => {
            println!("  handover-equivocation: finalized {:?} panics {}", o.finalized, o.panics.len());
            // the next leader is validator 0 here; judge on the whole cluster
            if !o.panics.is_empty() {
                report.violation(
                    "C10:node-task-panicked:handover-equivocation".to_string(),
                    format!("previous leader equivocating towards the next leader: {:.200}", o.panics[0]),
                    json!({"attack": "handover-equivocation"}),
                );
            } else if o.finalized.iter().flatten().any(|f| *f < 24) {
                report.violation(
                    "C10:cluster-stalled:handover-equivocation".to_string(),
                    format!("finalized slots after 16 s: {:?}", o.finalized),
                    json!({"attack": "handover-equivocation"}),
                );
            }
        }
    }
    // the same hand-over with a client that fills every optimistically produced slice to the last byte
    evals.fetch_add(1, std::sync::atomic::Ordering::Relaxed);
    match run_one(&[], 1_000_000, 16_000, Handover::OnlyNextLeaderFullSlices) {
        Err(p) => report.violation("C10:simulation-panicked:handover-with-full-slices".to_string(), p, json!({"attack": "handover-with-full-slices"})),
        Ok(o) => {
            println!("  handover-with-full-slices: finalized {:?} panics {}", o.finalized, o.panics.len());
            if !o.panics.is_empty() {
                report.violation(
                    "C10:node-task-panicked:handover-with-full-slices".to_string(),
                    format!("the next leader builds optimistically on a block the others skip while a client streams transactions that fill each of its slices exactly; when the ready parent turns out to be another block: {:.200}", o.panics[0]),
                    json!({"attack": "handover-with-full-slices", "transaction_sizes": "periodic, 62 x 512 + 1 x 502 bytes per 63"}),
                );
            } else if o.finalized.iter().flatten().any(|f| *f < 24) {
                report.violation("C10:cluster-stalled:handover-with-full-slices".to_string(), format!("finalized slots after 16 s: {:?}", o.finalized), json!({"attack": "handover-with-full-slices"}));
            }
        }
    }
    let cov = json!({
        "evaluations": evals.load(std::sync::atomic::Ordering::Relaxed) + udp_cases,
        "distinct_nontrivial": jobs.len() + 1 + udp_cases,
        "udp_interface_datagrams": udp_cases,
        "rule": "4 real Alpenglow nodes + 1 attacker validator (19% stake, own leader windows) in virtual time; each hostile item of the menu (attacker-signed votes at edge slots incl. u64::MAX and the 2-epoch boundary, slashable pairs, unknown signers, replayed and mutated certificates, validly signed malformed blocks for the attacker's own next window and for a far-future window, contradictory last flags in both orders, conflicting slices, equivocation in the last window of the slot space, slice index 1023, raw slices with odd / zero / over-long / mixed shard sizes and non-codeword coding shreds under a validly signed root, tag-flipped / corrupted genuine shreds, shreds for the victim's own window, repair requests with unknown senders and boundary indices, unsolicited / mismatched repair responses, transactions of 0/512/513/1480 bytes, floods of large ones and floods of thousands of 0/1-byte ones, garbage on all five interfaces) is injected alone at each phase (thorough: also ordered pairs across classes), plus the scripted hand-over equivocation of the attacker as previous leader; afterwards no task may have panicked and the victim must still vote, answer repair requests and finalize like the undisturbed run; every (item, phase) run is distinct and non-trivial; in addition the real UdpNetwork receive path (recvmmsg) on the loopback device gets datagrams of 23 sizes from 0 to 65000 bytes (around the 1500-byte receive buffer in particular) x 3 fill patterns between two honest votes, both of which must still be delivered",
        "exhaustive": true,
        "certificate_order_sweep": cert_orders,
        "repair_crash_probe_histories": repair_probe_runs,
        "repair_crash_probe_rule": "a real Repair instance repairing a 1- / 2- (thorough 3-) slice block over scripted peers: each of the 15 hostile answer kinds of C14 (incl. proofs continued with canonical empty-subtree roots beyond the supported height) at each metadata request and the first shred requests; the repair task must survive",
        "slice_filling_sequences": filling_cases,
        "slice_filling_rule": "the real produce_slice_payload (hook) fed {61, 60, 0} full-size transactions, one of every size 0..=513, one from a boundary menu, three full-size ones, with and without a parent in the slice; slices produced until the queue is empty; no panic, no payload above the slice limit, every payload shreds, transactions within the limit come out once and in order",
        "menu_items": attacks.len(),
        "phases_ms": phases,
        "baseline_victim_finalized": baseline_fin,
        "samples": samples.into_inner().unwrap().items,
    });
    report.finish(cov)
}

#[allow(dead_code)]
fn unused(_: Value) {}
