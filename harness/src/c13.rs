//! C13: the blockstore rebuilds exactly the disseminated block, once, and flags bad ones (E2).

use std::collections::BTreeSet;
use std::hash::{Hash, Hasher};

use alpenglow::consensus::{AddShredError, Blockstore};
use alpenglow::crypto::merkle::DoubleMerkleTree;
use alpenglow::crypto::signature::SecretKey;
use alpenglow::shredder::{ShredIndex, TOTAL_SHREDS, ValidatedShred};
use alpenglow::types::{SlicePayload, Slot};
use alpenglow::BlockId;
use serde_json::{Value, json};

use crate::bsdrv::*;
use crate::c11::slice_index;
use crate::common::{Report, Tier, bh, catch, new_hasher, poll_once};
use crate::engine::{BfsLimits, BfsStats, StepOutcome, Sys, bfs};

const SLOT: u64 = 9;

/// Delivery stages of one slice: number of shreds delivered after each `Next`.
const STAGES: [usize; 6] = [0, 1, 31, 32, 33, 40];

#[derive(Clone, Copy, Debug, PartialEq, Eq)]
enum Order {
    Ascending,
    CodingFirst,
    Interleaved,
}

fn order_index(o: Order, k: usize) -> usize {
    match o {
        Order::Ascending => k,
        Order::CodingFirst => 63 - k,
        Order::Interleaved => if k % 2 == 0 { k / 2 } else { 63 - k / 2 },
    }
}

#[derive(Clone, Debug, PartialEq, Eq)]
enum Expect {
    /// correct leader: the block must be rebuilt exactly
    Clean,
    /// the block itself is malformed (consistently signed): InvalidBlock once, never a Block
    Malformed,
}

struct Shape {
    name: String,
    block: SignedBlock,
    expect: Expect,
    parent: BlockId,
    txs_debug: String,
    /// alternative signed slices (slice index, shreds, description, genuine slices that reveal the contradiction)
    alts: Vec<(usize, [ValidatedShred; TOTAL_SHREDS], String, Vec<usize>)>,
    order: Order,
}

struct BsSys {
    shape: Shape,
}

struct BsWorld {
    bs: BsH,
    progress: Vec<usize>,
    alt_done: Vec<bool>,
    redelivered: Vec<bool>,
    /// one shred of the same block arrived through the repair path (an unfinished repair)
    repair_shred_done: bool,
    /// the blockstore was told to delete everything BEFORE the block's slot (the slot itself stays)
    pruned_below_slot: bool,
    /// a genuine shred whose data/coding tag a relay flipped (the tag is covered neither by the
    /// signature nor by the Merkle path) was delivered; the blockstore drops it without any effect
    tag_flipped_done: bool,
    first_shreds: usize,
    blocks: usize,
    invalids: usize,
    /// a conflicting / contradictory shred has been delivered together with a genuine one
    conflict_seen: bool,
    alt_delivered_any: bool,
}

impl BsSys {
    fn n_slices(&self) -> usize {
        self.shape.block.shreds.len()
    }
    fn complete(&self, w: &BsWorld) -> bool {
        w.progress.iter().all(|p| STAGES[*p] >= 32)
    }
}

impl Sys for BsSys {
    type World = BsWorld;

    fn init(&self) -> BsWorld {
        BsWorld {
            bs: BsH::new(),
            progress: vec![0; self.n_slices()],
            alt_done: vec![false; self.shape.alts.len()],
            redelivered: vec![false; self.n_slices()],
            repair_shred_done: false,
            pruned_below_slot: false,
            tag_flipped_done: false,
            first_shreds: 0,
            blocks: 0,
            invalids: 0,
            conflict_seen: false,
            alt_delivered_any: false,
        }
    }

    fn num_actions(&self) -> usize {
        2 * self.n_slices() + self.shape.alts.len() + 3
    }

    fn enabled(&self, w: &BsWorld, _h: &[u16], a: u16) -> bool {
        let a = a as usize;
        let n = self.n_slices();
        if a < n {
            w.progress[a] + 1 < STAGES.len()
        } else if a < 2 * n {
            let j = a - n;
            w.progress[j] > 0 && !w.redelivered[j]
        } else if a < 2 * n + self.shape.alts.len() {
            !w.alt_done[a - 2 * n]
        } else if a == 2 * n + self.shape.alts.len() {
            // only for well-formed blocks (repair is requested for certified blocks)
            !w.repair_shred_done && self.shape.expect == Expect::Clean
        } else if a == 2 * n + self.shape.alts.len() + 1 {
            !w.pruned_below_slot
        } else {
            !w.tag_flipped_done && self.shape.expect == Expect::Clean
        }
    }

    fn step(&self, w: &mut BsWorld, a: u16, check: bool) -> StepOutcome {
        let mut out = StepOutcome::ok();
        let a = a as usize;
        let n = self.n_slices();
        let sh = &self.shape;
        let was_complete = self.complete(w);
        let mut events = Vec::new();
        let mut results = Vec::new();
        let what;
        if a < n {
            let from = STAGES[w.progress[a]];
            w.progress[a] += 1;
            let to = STAGES[w.progress[a]];
            for k in from..to {
                let s = sh.block.shreds[a][order_index(sh.order, k)].clone();
                let (r, ev) = w.bs.add_diss(s);
                results.push(r.map(|_| ()));
                events.extend(ev);
            }
            what = format!("slice {a}: shreds {from}..{to}");
        } else if a < 2 * n {
            let j = a - n;
            w.redelivered[j] = true;
            let k = STAGES[w.progress[j]] - 1;
            let s = sh.block.shreds[j][order_index(sh.order, k)].clone();
            let (r, ev) = w.bs.add_diss(s);
            if check && r != Err(AddShredError::Duplicate) && w.invalids == 0 {
                out.push("C13:redelivery-not-duplicate".to_string(), format!("re-delivered shred of slice {j}: {:?}", r.map(|_| ())));
            }
            events.extend(ev);
            what = format!("re-deliver last shred of slice {j}");
        } else if a > 2 * n + sh.alts.len() + 1 {
            // a genuine shred (last slice, a position the stages never deliver first) with its tag flipped
            w.tag_flipped_done = true;
            let genuine = &sh.block.shreds[n - 1][63];
            let mut m: crate::wire::MShred = crate::wire::to_mirror(genuine.as_shred());
            m.flip_tag();
            let flipped = crate::wire::from_mirror::<crate::wire::MShred, alpenglow::shredder::Shred>(&m)
                .ok()
                .and_then(|sh2| ValidatedShred::try_new(sh2, None, &leader_key().to_pk()).ok());
            match flipped {
                Some(v) => {
                    let (r, ev) = w.bs.add_diss(v);
                    if check && (r.is_ok() || !ev.is_empty()) {
                        out.push("C13:tag-flipped-shred-not-dropped-silently".to_string(), format!("a genuine shred with its data/coding tag flipped: result {:?}, events {ev:?}", r.map(|_| ())));
                    }
                    events.extend(ev);
                }
                // validation refuses it already: nothing reaches the blockstore
                None => {}
            }
            what = "a genuine shred of the last slice with its data/coding tag flipped".to_string();
        } else if a == 2 * n + sh.alts.len() + 1 {
            // pruning up to (not including) the block's own slot must not disturb anything
            w.pruned_below_slot = true;
            w.bs.bs.prune(Slot::new(SLOT));
            what = format!("prune everything before slot {SLOT}");
        } else if a == 2 * n + sh.alts.len() {
            // an unfinished repair of the very same block: one genuine shred stored under its hash
            w.repair_shred_done = true;
            let s = sh.block.shreds[n - 1][37].clone();
            let (r, ev) = w.bs.add_repair(sh.block.hash.clone(), s);
            let _ = r;
            // the repair path keeps its own per-hash data and makes its own announcements (a
            // FirstShred for its first shred); C13 counts the dissemination path's announcements
            events.extend(ev.into_iter().filter(|e| !matches!(e, Ev::Block(..) | Ev::FirstShred(_))));
            what = "one shred of the same block through the repair path".to_string();
        } else {
            let k = a - 2 * n;
            w.alt_done[k] = true;
            w.alt_delivered_any = true;
            let (idx, shreds, desc, _) = &sh.alts[k];
            let (r, ev) = w.bs.add_diss(shreds[(*idx * 7 + 5) % 64].clone());
            results.push(r.map(|_| ()));
            events.extend(ev);
            what = format!("alternative signed shred: {desc}");
        }
        for e in &events {
            match e {
                Ev::FirstShred(_) => w.first_shreds += 1,
                Ev::Block(..) => w.blocks += 1,
                Ev::Invalid(_) => w.invalids += 1,
            }
        }
        if !check {
            return out;
        }
        let now_complete = self.complete(w);
        let replay_ctx = format!("{} after '{what}'", sh.name);
        // exactly one FirstShred, with the very first shred
        if w.first_shreds > 1 {
            out.push("C13:first-shred-announced-twice".to_string(), format!("{replay_ctx}: {} FirstShred events", w.first_shreds));
        }
        if w.first_shreds == 0 && (w.progress.iter().any(|p| *p > 0) || w.alt_delivered_any) && w.invalids == 0 {
            out.push("C13:first-shred-not-announced".to_string(), replay_ctx.clone());
        }
        if w.invalids > 1 {
            out.push("C13:invalid-block-announced-twice".to_string(), replay_ctx.clone());
        }
        if w.blocks > 1 {
            out.push("C13:block-announced-twice".to_string(), replay_ctx.clone());
        }
        let block_now = events.iter().any(|e| matches!(e, Ev::Block(..)));
        let invalid_before = w.invalids > 0 && !events.iter().any(|e| matches!(e, Ev::Invalid(_)));
        if block_now && invalid_before {
            out.push("C13:block-announced-after-invalid".to_string(), replay_ctx.clone());
        }
        match (&sh.expect, w.alt_delivered_any) {
            (Expect::Clean, false) => {
                if w.invalids > 0 {
                    out.push("C13:correct-leader-flagged".to_string(), format!("{replay_ctx}: InvalidBlock for a clean history; results {results:?}"));
                }
                if now_complete && w.blocks != 1 {
                    out.push(
                        "C13:block-not-announced-when-complete".to_string(),
                        format!("{replay_ctx}: every slice has >= 32 shreds but {} Block events so far", w.blocks),
                    );
                }
                if !now_complete && w.blocks > 0 {
                    out.push("C13:block-announced-early".to_string(), replay_ctx.clone());
                }
                if now_complete && !was_complete {
                    // content checks in the step the block completes
                    for e in &events {
                        if let Ev::Block(slot, hash, parent) = e {
                            if *slot != SLOT || *hash != sh.block.hash {
                                out.push("C13:wrong-block-hash".to_string(), format!("{replay_ctx}: announced hash is not the double-Merkle root of the leader's slice roots"));
                            }
                            if parent != &sh.parent {
                                out.push("C13:wrong-parent".to_string(), format!("{replay_ctx}: announced parent {parent:?}, leader's {:?}", sh.parent));
                            }
                            if parent.0.inner() >= SLOT {
                                out.push("C13:parent-not-in-earlier-slot".to_string(), replay_ctx.clone());
                            }
                        }
                    }
                    self.check_served(w, &mut out, &replay_ctx);
                } else if now_complete && a >= 2 * n + sh.alts.len() {
                    // a repair shred arriving after completion must not hide the block either
                    self.check_served(w, &mut out, &replay_ctx);
                }
            }
            (Expect::Clean, true) => {
                // equivocation / contradiction revealed: once both versions were seen an InvalidBlock is due
                if w.blocks > 0 && block_now && w.invalids > 0 {
                    out.push("C13:block-announced-after-invalid".to_string(), replay_ctx.clone());
                }
                let genuine_seen_for_alt = sh.alts.iter().enumerate().any(|(k, (_, _, _, reveal))| w.alt_done[k] && reveal.iter().any(|j| w.progress[*j] > 0));
                if genuine_seen_for_alt && w.invalids == 0 {
                    out.push(
                        "C13:conflict-not-flagged".to_string(),
                        format!("{replay_ctx}: a conflicting / contradictory signed slice and genuine shreds were both delivered but no InvalidBlock was announced (results {results:?})"),
                    );
                }
            }
            (Expect::Malformed, _) => {
                if w.blocks > 0 {
                    out.push("C13:malformed-block-announced".to_string(), format!("{replay_ctx}: Block event for a malformed block"));
                }
                if now_complete && w.invalids != 1 {
                    out.push(
                        "C13:malformed-block-not-flagged".to_string(),
                        format!("{replay_ctx}: all slices have >= 32 shreds of a malformed block but {} InvalidBlock events", w.invalids),
                    );
                }
            }
        }
        if !out.violations.is_empty() {
            out.fatal = true;
        }
        out
    }

    fn digest(&self, w: &BsWorld) -> u64 {
        let mut h = new_hasher();
        w.progress.hash(&mut h);
        w.alt_done.hash(&mut h);
        w.redelivered.hash(&mut h);
        w.repair_shred_done.hash(&mut h);
        w.pruned_below_slot.hash(&mut h);
        w.tag_flipped_done.hash(&mut h);
        (w.first_shreds, w.blocks, w.invalids).hash(&mut h);
        // observable blockstore state
        let id: BlockId = (Slot::new(SLOT), self.shape.block.hash.clone());
        w.bs.bs.get_block(&id).is_some().hash(&mut h);
        w.bs.bs.disseminated_block_hash(Slot::new(SLOT)).hash(&mut h);
        for j in 0..self.n_slices() + 1 {
            w.bs.bs.cached_commitment(Slot::new(SLOT), slice_index(j)).map(|c| c.as_ref().to_vec()).hash(&mut h);
        }
        h.finish()
    }

    fn describe(&self, a: u16) -> String {
        let a = a as usize;
        let n = self.n_slices();
        if a < n {
            format!("deliver next stage of slice {a}")
        } else if a < 2 * n {
            format!("re-deliver last shred of slice {}", a - n)
        } else if a < 2 * n + self.shape.alts.len() {
            format!("deliver alternative signed shred: {}", self.shape.alts[a - 2 * n].2)
        } else if a == 2 * n + self.shape.alts.len() {
            "one shred of the same block arrives through the repair path".to_string()
        } else if a == 2 * n + self.shape.alts.len() + 1 {
            format!("the blockstore prunes everything before slot {SLOT}")
        } else {
            "a genuine shred with its data/coding tag flipped arrives".to_string()
        }
    }

    fn outcome(&self, w: &BsWorld) -> u64 {
        let mut h = new_hasher();
        (w.first_shreds, w.blocks, w.invalids).hash(&mut h);
        h.finish()
    }
}

impl BsSys {
    /// After reconstruction: every shred, slice root and proof is served exactly.
    fn check_served(&self, w: &BsWorld, out: &mut StepOutcome, ctx: &str) {
        let sh = &self.shape;
        let id: BlockId = (Slot::new(SLOT), sh.block.hash.clone());
        let bs = &w.bs.bs;
        if bs.disseminated_block_hash(Slot::new(SLOT)) != Some(&sh.block.hash) {
            out.push("C13:disseminated-hash-not-served".to_string(), ctx.to_string());
        }
        match bs.get_block(&id) {
            None => out.push("C13:block-not-served".to_string(), ctx.to_string()),
            Some(b) => {
                let dbg = format!("{b:?}");
                if !dbg.contains(&sh.txs_debug) {
                    out.push("C13:transactions-differ".to_string(), format!("{ctx}: stored block {dbg:.200} lacks the leader's transactions {:.120}", sh.txs_debug));
                }
            }
        }
        if bs.get_last_slice_index(&id) != Some(slice_index(sh.block.shreds.len() - 1)) {
            out.push("C13:last-slice-index-wrong".to_string(), ctx.to_string());
        }
        for (j, set) in sh.block.shreds.iter().enumerate() {
            let si = slice_index(j);
            match bs.get_slice_root(&id, si) {
                Some(r) if r == sh.block.roots[j] => {}
                other => out.push("C13:slice-root-not-served".to_string(), format!("{ctx}: slice {j}: {other:?}")),
            }
            match bs.create_double_merkle_proof(&id, si) {
                Some(p) if DoubleMerkleTree::check_proof(&sh.block.roots[j], j, &sh.block.hash, &p) => {}
                _ => out.push("C13:double-merkle-proof-not-served".to_string(), format!("{ctx}: slice {j}")),
            }
            for (i, s) in set.iter().enumerate() {
                let got = bs.get_shred(&id, si, ShredIndex::new(i).unwrap());
                let same = got.is_some_and(|g| wincode::serialize(g.as_shred()).unwrap() == wincode::serialize(s.as_shred()).unwrap());
                if !same {
                    out.push("C13:shred-not-served-exactly".to_string(), format!("{ctx}: slice {j} shred {i}"));
                    break;
                }
            }
        }
    }
}

fn parent_id() -> BlockId {
    (Slot::new(SLOT - 2), bh("c13-parent"))
}

fn tx(n: usize, fill: u8) -> Vec<u8> {
    vec![fill; n]
}

fn spec(parent: Option<BlockId>, txs: Vec<Vec<u8>>) -> SliceSpec {
    SliceSpec { parent, txs, raw: None }
}

fn shapes(sk: &SecretKey, tier: Tier) -> Vec<Shape> {
    let p = parent_id();
    let p2: BlockId = (Slot::new(SLOT - 1), bh("c13-handover-parent"));
    let mut out = Vec::new();
    let mut add = |name: &str, specs: Vec<SliceSpec>, expect: Expect, parent: BlockId, alts: Vec<(usize, SliceSpec, bool, &str, Vec<usize>)>, order: Order| {
        let block = sign_block(SLOT, &specs, sk);
        let all_txs: Vec<alpenglow::Transaction> = specs.iter().flat_map(|s| s.txs.iter().map(|t| alpenglow::Transaction(t.clone()))).collect();
        let alts = alts
            .into_iter()
            .map(|(idx, sp, last, d, reveal)| {
                let (_, sh) = sign_slice(SLOT, idx, last, &sp, sk);
                (idx, sh, d.to_string(), reveal)
            })
            .collect();
        out.push(Shape {
            name: name.to_string(),
            block,
            expect,
            parent,
            txs_debug: format!("{all_txs:?}"),
            alts,
            order,
        });
    };
    // clean shapes
    add("1-slice-empty", vec![spec(Some(p.clone()), vec![])], Expect::Clean, p.clone(), vec![], Order::Ascending);
    // many tiny transactions: few bytes on the wire, many elements in memory
    add("1-slice-1400-one-byte-transactions", vec![spec(Some(p.clone()), (0..1400).map(|i| tx(1, i as u8)).collect())], Expect::Clean, p.clone(), vec![], Order::Ascending);
    add("1-slice-3000-empty-transactions", vec![spec(Some(p.clone()), (0..3000).map(|_| tx(0, 0)).collect())], Expect::Clean, p.clone(), vec![], Order::CodingFirst);
    add("1-slice-one-tx-coding-first", vec![spec(Some(p.clone()), vec![tx(100, 1)])], Expect::Clean, p.clone(), vec![], Order::CodingFirst);
    add(
        "2-slices-full-and-small",
        vec![spec(Some(p.clone()), (0..60).map(|i| tx(512, i as u8)).collect()), spec(None, vec![tx(3, 9)])],
        Expect::Clean,
        p.clone(),
        vec![],
        Order::Interleaved,
    );
    add(
        "3-slices-optimistic-handover",
        vec![spec(Some(p.clone()), vec![tx(10, 1)]), spec(Some(p2.clone()), vec![tx(20, 2)]), spec(None, vec![])],
        Expect::Clean,
        p2.clone(),
        vec![],
        Order::Ascending,
    );
    // equivocation / contradictory markers placed anywhere among genuine shreds
    add(
        "2-slices+conflicting-slice-1",
        vec![spec(Some(p.clone()), vec![tx(10, 1)]), spec(None, vec![tx(30, 2)])],
        Expect::Clean,
        p.clone(),
        vec![(1, spec(None, vec![tx(30, 3)]), true, "slice 1 with different content", vec![1])],
        Order::Ascending,
    );
    add(
        "2-slices+last-flag-contradictions",
        vec![spec(Some(p.clone()), vec![tx(10, 1)]), spec(None, vec![tx(30, 2)])],
        Expect::Clean,
        p.clone(),
        vec![
            (0, spec(Some(p.clone()), vec![tx(10, 1)]), true, "slice 0 (same content) marked last", vec![0, 1]),
            (2, spec(None, vec![tx(5, 5)]), false, "non-last slice 2 beyond the last index", vec![1]),
        ],
        Order::CodingFirst,
    );
    add(
        "2-slices+same-root-other-last-flag",
        vec![spec(Some(p.clone()), vec![tx(10, 1)]), spec(None, vec![tx(30, 2)])],
        Expect::Clean,
        p.clone(),
        vec![(1, spec(None, vec![tx(30, 2)]), false, "slice 1 (same content) marked non-last", vec![1]), (2, spec(None, vec![tx(1, 1)]), true, "a second last slice at index 2", vec![1])],
        Order::Ascending,
    );
    // malformed but consistently signed blocks (Byzantine leader)
    let garbage = SliceSpec { parent: None, txs: vec![], raw: Some(vec![0xff; 40]) };
    add("malformed-undecodable-transactions", vec![spec(Some(p.clone()), vec![tx(5, 1)]), garbage], Expect::Malformed, p.clone(), vec![], Order::Ascending);
    add("malformed-first-slice-without-parent", vec![spec(None, vec![tx(5, 1)])], Expect::Malformed, p.clone(), vec![], Order::Ascending);
    add(
        "malformed-parent-switched-twice",
        vec![spec(Some(p.clone()), vec![]), spec(Some(p2.clone()), vec![]), spec(Some((Slot::new(SLOT - 3), bh("third"))), vec![])],
        Expect::Malformed,
        p.clone(),
        vec![],
        Order::Ascending,
    );
    add(
        "malformed-parent-switched-to-itself",
        vec![spec(Some(p.clone()), vec![]), spec(Some(p.clone()), vec![tx(1, 1)])],
        Expect::Malformed,
        p.clone(),
        vec![],
        Order::CodingFirst,
    );
    add(
        "malformed-parent-in-same-slot",
        vec![spec(Some((Slot::new(SLOT), bh("same-slot"))), vec![tx(4, 4)])],
        Expect::Malformed,
        p.clone(),
        vec![],
        Order::Ascending,
    );
    add(
        "malformed-parent-in-later-slot",
        vec![spec(Some((Slot::new(SLOT + 5), bh("future"))), vec![]), spec(None, vec![])],
        Expect::Malformed,
        p.clone(),
        vec![],
        Order::Ascending,
    );
    add(
        "malformed-first-parent-in-same-slot-then-valid-handover",
        vec![spec(Some((Slot::new(SLOT), bh("same-slot"))), vec![tx(4, 4)]), spec(Some(p2.clone()), vec![tx(2, 2)])],
        Expect::Malformed,
        p2.clone(),
        vec![],
        Order::Ascending,
    );
    add(
        "malformed-first-parent-in-later-slot-then-valid-handover",
        vec![spec(Some((Slot::new(SLOT + 5), bh("future"))), vec![]), spec(None, vec![tx(1, 1)]), spec(Some(p.clone()), vec![])],
        Expect::Malformed,
        p.clone(),
        vec![],
        Order::CodingFirst,
    );
    add(
        "malformed-handover-to-later-slot",
        vec![spec(Some(p.clone()), vec![]), spec(Some((Slot::new(SLOT + 1), bh("future2"))), vec![])],
        Expect::Malformed,
        p.clone(),
        vec![],
        Order::Ascending,
    );
    if tier == Tier::Thorough {
        add(
            "4-slices-mixed",
            vec![spec(Some(p.clone()), vec![tx(512, 1)]), spec(None, vec![]), spec(Some(p2.clone()), vec![tx(200, 2), tx(1, 3)]), spec(None, vec![tx(7, 7)])],
            Expect::Clean,
            p2.clone(),
            vec![],
            Order::Interleaved,
        );
        add(
            "3-slices+conflicts-everywhere",
            vec![spec(Some(p.clone()), vec![tx(10, 1)]), spec(None, vec![tx(20, 2)]), spec(None, vec![tx(30, 3)])],
            Expect::Clean,
            p.clone(),
            vec![
                (0, spec(Some(p2.clone()), vec![tx(10, 1)]), false, "slice 0 with another parent", vec![0]),
                (1, spec(None, vec![tx(20, 2)]), true, "slice 1 marked last", vec![1, 2]),
                (3, spec(None, vec![]), false, "non-last slice 3 beyond the end", vec![2]),
            ],
            Order::Ascending,
        );
    }
    out
}

/// Leader fast path stores the same block a follower reconstructs.
fn own_slice_check(report: &Report, shape: &Shape) -> usize {
    let r = catch(|| {
        let mut leader = BsH::new();
        let mut infos = Vec::new();
        let mut evs = Vec::new();
        for (j, slice) in shape.block.slices.iter().enumerate() {
            let mut bytes = wincode::serialize(&slice.parent).unwrap();
            bytes.extend(wincode::serialize(&slice.data).unwrap());
            let payload = SlicePayload::try_from(bytes.as_slice()).expect("payload");
            let shreds: Box<[ValidatedShred; TOTAL_SHREDS]> = Box::new(shape.block.shreds[j].clone());
            let info = poll_once(leader.bs.add_own_slice(payload, shreds));
            infos.push(info);
            evs.extend(leader.drain());
        }
        let mut follower = BsH::new();
        let mut fevs = Vec::new();
        for set in &shape.block.shreds {
            for s in set.iter().take(33) {
                fevs.extend(follower.add_diss(s.clone()).1);
            }
        }
        (evs, fevs, leader, follower)
    });
    match r {
        Err(p) => report.violation("C13:own-slice-path-panics", p, json!({"shape": shape.name})),
        Ok((evs, fevs, leader, follower)) => {
            let lb: Vec<&Ev> = evs.iter().filter(|e| matches!(e, Ev::Block(..))).collect();
            let fb: Vec<&Ev> = fevs.iter().filter(|e| matches!(e, Ev::Block(..))).collect();
            if lb != fb || lb.len() != 1 || evs.iter().filter(|e| matches!(e, Ev::FirstShred(_))).count() != 1 {
                report.violation(
                    "C13:own-slice-path-differs-from-follower",
                    format!("leader events {evs:?}, follower events {fevs:?}"),
                    json!({"shape": shape.name}),
                );
            }
            let id: BlockId = (Slot::new(SLOT), shape.block.hash.clone());
            for j in 0..shape.block.shreds.len() {
                for i in 0..TOTAL_SHREDS {
                    let a = leader.bs.get_shred(&id, slice_index(j), ShredIndex::new(i).unwrap()).map(|s| wincode::serialize(s.as_shred()).unwrap());
                    let b = follower.bs.get_shred(&id, slice_index(j), ShredIndex::new(i).unwrap()).map(|s| wincode::serialize(s.as_shred()).unwrap());
                    if a != b || a.is_none() {
                        report.violation("C13:own-slice-path-stores-different-shreds", format!("slice {j} shred {i}"), json!({"shape": shape.name}));
                        return 1;
                    }
                }
            }
        }
    }
    1
}

pub fn run(tier: Tier) -> i32 {
    let report = Report::new("C13", tier, "model_checking");
    let sk = leader_key();
    let mut total = BfsStats::default();
    let mut per: Vec<Value> = Vec::new();
    let mut samples = Vec::new();
    let mut exhaustive = true;
    let mut own_checks = 0;
    for shape in shapes(&sk, tier) {
        if shape.expect == Expect::Clean && shape.alts.is_empty() {
            own_checks += own_slice_check(&report, &shape);
        }
        let sys = BsSys { shape };
        let limits = BfsLimits::new(64, tier.pick(300_000, 5_000_000), tier.pick(15, 200));
        let st = bfs(&sys, &sys.shape.name, &limits, &report);
        println!(
            "  {}: states={} transitions={} outcomes={} capped={:?}",
            sys.shape.name, st.states, st.transitions, st.distinct_outcomes, st.capped
        );
        exhaustive &= st.frontier_exhausted;
        st.merge_into(&mut total);
        per.push(json!({"shape": sys.shape.name, "states": st.states, "transitions": st.transitions, "capped": st.capped,
            "alternatives": sys.shape.alts.iter().map(|a| a.2.clone()).collect::<Vec<_>>()}));
        samples.extend(st.samples.into_iter().take(1));
    }
    let cov = json!({
        "states": total.states,
        "transitions": total.transitions,
        "traces_validated_against_impl": total.transitions,
        "replayed_impl_steps": total.replayed_steps,
        "distinct_outcomes": total.distinct_outcomes,
        "exhaustive": exhaustive,
        "capped": total.capped,
        "bound": "per block shape: every interleaving across slices of the per-slice delivery stages (0, 1, 31, 32, 33, 40 shreds; three index orders), one re-delivery per slice and each alternative signed shred placed anywhere",
        "own_slice_fast_path_comparisons": own_checks,
        "families": per,
        "samples": samples,
    });
    report.finish(cov)
}
