//! C11: any 32 of a slice's 64 shreds restore it bit-for-bit (E3).

use std::sync::Mutex;
use std::sync::atomic::{AtomicUsize, Ordering};

use alpenglow::crypto::signature::SecretKey;
use alpenglow::shredder::{
    AontShredder, CodingOnlyShredder, DeshredError, PetsShredder, RegularShredder, ShredError, Shredder,
    TOTAL_SHREDS, ValidatedShred,
};
use alpenglow::types::{Slice, SliceIndex, Slot};
use rand::SeedableRng;
use rand::rngs::StdRng;
use rayon::prelude::*;
use serde_json::json;

use crate::common::{Report, Samples, Tier, bh, catch, seed};

pub fn slice_index(i: usize) -> SliceIndex {
    wincode::deserialize::<SliceIndex>(&(i as u64).to_le_bytes()).expect("slice index")
}

pub fn mk_slice(slot: u64, index: usize, is_last: bool, with_parent: bool, data_len: usize) -> Slice {
    let data: Vec<u8> = (0..data_len).map(|i| (i * 131 + data_len * 7 + 3) as u8).collect();
    Slice {
        slot: Slot::new(slot),
        slice_index: slice_index(index),
        is_last,
        parent: if with_parent { Some((Slot::new(slot - 1), bh("parent"))) } else { None },
        data,
    }
}

fn overhead(with_parent: bool) -> usize {
    if with_parent { 1 + 8 + 32 + 8 } else { 1 + 8 }
}

/// Subset families: lists of shred indices to keep.
fn base_family() -> Vec<(&'static str, Vec<usize>)> {
    vec![
        ("first-32", (0..32).collect()),
        ("last-32", (32..64).collect()),
        ("every-second", (0..64).step_by(2).collect()),
        ("odd-ones", (1..64).step_by(2).collect()),
        ("31-only", (0..31).collect()),
        ("none", vec![]),
        ("33-middle", (15..48).collect()),
    ]
}

fn full_family() -> Vec<(String, Vec<usize>)> {
    let mut v: Vec<(String, Vec<usize>)> = Vec::new();
    for start in 0..=32 {
        v.push((format!("window-{start}"), (start..start + 32).collect()));
    }
    for k in 0..=32usize {
        // k data-side + 32-k coding-side
        let mut s: Vec<usize> = (0..k).collect();
        s.extend(32 + k..64);
        v.push((format!("{k}-low-{}-high", 32 - k), s));
    }
    for p in 0..=64usize {
        v.push((format!("prefix-{p}"), (0..p).collect()));
    }
    for miss in 0..64usize {
        v.push((format!("all-but-{miss}"), (0..64).filter(|i| *i != miss).collect()));
    }
    for one in 0..64usize {
        // this index plus the 31 following ones (cyclic)
        v.push((format!("cyclic-from-{one}"), (0..32).map(|d| (one + d) % 64).collect()));
    }
    v
}

struct Stats {
    evals: AtomicUsize,
    nontrivial: AtomicUsize,
    oversize_refused: AtomicUsize,
    samples: Mutex<Samples>,
}

fn enc(s: &ValidatedShred) -> Vec<u8> {
    wincode::serialize(s.as_shred()).expect("ser")
}

fn run_shredder<S: Shredder>(name: &'static str, lengths: &[usize], full_lengths: &[usize], report: &Report, st: &Stats) {
    let sk = SecretKey::new(&mut StdRng::seed_from_u64(seed() ^ 0x11));
    let pk = sk.to_pk();
    let base = base_family();
    let full = full_family();
    let work: Vec<(usize, bool)> = lengths.iter().flat_map(|l| [(*l, false), (*l, true)]).collect();
    work.par_iter().for_each_init(S::default, |shredder, (plen, with_parent)| {
        // plen = length of the serialized payload (parent + length prefix + data)
        let Some(data_len) = plen.checked_sub(overhead(*with_parent)) else { return };
        let is_last = plen % 2 == 0;
        let slice = mk_slice(9, plen % 7, is_last, *with_parent, data_len);
        let replay = json!({"shredder": name, "payload_len": plen, "with_parent": with_parent});
        let shreds = match catch(std::panic::AssertUnwindSafe(|| shredder.shred(&slice, &sk))) {
            Err(msg) => {
                report.violation(format!("C11:shred-panics:{name}"), format!("shred() panicked for payload length {plen}: {msg}"), replay);
                return;
            }
            Ok(r) => r,
        };
        st.evals.fetch_add(1, Ordering::Relaxed);
        let shreds = match shreds {
            Err(ShredError::TooMuchData) => {
                if *plen <= S::MAX_DATA_SIZE {
                    report.violation(format!("C11:fitting-slice-refused:{name}"), format!("payload of {plen} bytes (limit {}) refused", S::MAX_DATA_SIZE), replay);
                } else {
                    st.oversize_refused.fetch_add(1, Ordering::Relaxed);
                    st.nontrivial.fetch_add(1, Ordering::Relaxed);
                }
                return;
            }
            Ok(s) => s,
        };
        if *plen > S::MAX_DATA_SIZE {
            report.violation(format!("C11:oversize-slice-accepted:{name}"), format!("payload of {plen} bytes above the limit {} was shredded", S::MAX_DATA_SIZE), replay);
            return;
        }
        let leader: Vec<Vec<u8>> = shreds.iter().map(enc).collect();
        // the leader's own shreds validate
        for (i, s) in shreds.iter().enumerate() {
            if i % 21 == (plen % 21) && ValidatedShred::try_new(s.as_shred().clone(), None, &pk).is_err() {
                report.violation(format!("C11:leader-shred-invalid:{name}"), format!("leader shred {i} of payload length {plen} fails validation"), replay.clone());
            }
        }
        let fams: Vec<(String, Vec<usize>)> = if full_lengths.contains(plen) {
            full.clone()
        } else {
            base.iter().map(|(n, v)| (n.to_string(), v.clone())).collect()
        };
        for (fname, keep) in fams {
            st.evals.fetch_add(1, Ordering::Relaxed);
            st.nontrivial.fetch_add(1, Ordering::Relaxed);
            let mut arr: [Option<ValidatedShred>; TOTAL_SHREDS] = [const { None }; TOTAL_SHREDS];
            for i in &keep {
                arr[*i] = Some(shreds[*i].clone());
            }
            let before: Vec<Option<Vec<u8>>> = arr.iter().map(|s| s.as_ref().map(enc)).collect();
            let replay = json!({"shredder": name, "payload_len": plen, "with_parent": with_parent, "subset": fname, "kept": keep.len()});
            st.samples.lock().unwrap().push(|| replay.clone());
            let r = catch(std::panic::AssertUnwindSafe(|| shredder.deshred(&mut arr)));
            let r = match r {
                Err(msg) => {
                    report.violation(format!("C11:deshred-panics:{name}"), format!("deshred panicked ({fname}, payload {plen}): {msg}"), replay);
                    continue;
                }
                Ok(r) => r,
            };
            if keep.len() < 32 {
                match r {
                    Err(DeshredError::NotEnoughShreds) => {}
                    other => report.violation(
                        format!("C11:fewer-than-32-not-refused:{name}"),
                        format!("{} shreds ({fname}) of payload {plen}: expected NotEnoughShreds, got {:?}", keep.len(), other.map(|_| "Ok")),
                        replay.clone(),
                    ),
                }
                let after: Vec<Option<Vec<u8>>> = arr.iter().map(|s| s.as_ref().map(enc)).collect();
                if after != before {
                    report.violation(format!("C11:array-modified-on-error:{name}"), format!("{fname}, payload {plen}: supplied shreds changed although deshred failed"), replay);
                }
                continue;
            }
            match r {
                Err(e) => {
                    report.violation(
                        format!("C11:enough-shreds-not-restored:{name}"),
                        format!("{} shreds ({fname}) of payload {plen} (parent {with_parent}): deshred failed with {e:?}", keep.len()),
                        replay.clone(),
                    );
                    let after: Vec<Option<Vec<u8>>> = arr.iter().map(|s| s.as_ref().map(enc)).collect();
                    if after != before {
                        report.violation(format!("C11:array-modified-on-error:{name}"), format!("{fname}, payload {plen}"), replay);
                    }
                }
                Ok(rec) => {
                    let got: &Slice = &rec;
                    if got != &slice {
                        report.violation(
                            format!("C11:restored-slice-differs:{name}"),
                            format!("{fname}, payload {plen}: restored slice differs (slot/index/last/parent/data) from the original"),
                            replay.clone(),
                        );
                    }
                    for i in 0..TOTAL_SHREDS {
                        match &arr[i] {
                            None => report.violation(format!("C11:missing-shred-not-regenerated:{name}"), format!("{fname}, payload {plen}: shred {i} still missing"), replay.clone()),
                            Some(s) => {
                                if enc(s) != leader[i] {
                                    report.violation(
                                        format!("C11:regenerated-shred-differs:{name}"),
                                        format!("{fname}, payload {plen}: shred {i} differs from the leader's"),
                                        replay.clone(),
                                    );
                                }
                            }
                        }
                    }
                    // regenerated shreds validate under the same signed root (spot check: every 9th case all 64)
                    if (plen + keep.len()) % 9 == 0 {
                        let cached = shreds[0].commitment();
                        for s in arr.iter().flatten() {
                            if ValidatedShred::try_new(s.as_shred().clone(), None, &pk).is_err()
                                || ValidatedShred::try_new(s.as_shred().clone(), Some(&cached), &pk).is_err()
                            {
                                report.violation(format!("C11:regenerated-shred-invalid:{name}"), format!("{fname}, payload {plen}"), replay.clone());
                                break;
                            }
                        }
                    }
                }
            }
        }
    });
}


/// Error paths with >= 32 shreds: shreds produced by shredder `A` (or mixed from two
/// slices) handed to shredder `B`; whenever `deshred` fails the array must be untouched.
fn run_error_paths<A: Shredder, B: Shredder>(name: &'static str, lengths: &[usize], report: &Report, st: &Stats) {
    let sk = SecretKey::new(&mut StdRng::seed_from_u64(seed() ^ 0x11));
    let keeps: Vec<(&str, Vec<usize>)> = vec![
        ("first-32", (0..32).collect()),
        ("last-33", (31..64).collect()),
        ("every-second", (0..64).step_by(2).collect()),
        ("all-but-one", (0..63).collect()),
        ("63-high", (1..64).collect()),
    ];
    lengths.par_iter().for_each(|plen| {
        let mut a = A::default();
        let mut b = B::default();
        for with_parent in [false, true] {
            let Some(data_len) = plen.checked_sub(overhead(with_parent)) else { continue };
            if *plen > A::MAX_DATA_SIZE {
                continue;
            }
            let slice = mk_slice(9, 1, true, with_parent, data_len);
            // (a panicking shred() is reported by run_shredder; here it only ends the case)
            let Ok(Ok(shreds)) = catch(std::panic::AssertUnwindSafe(|| a.shred(&slice, &sk))) else { continue };
            // a second slice of another length / content for mixing
            let other_len = if data_len > 200 { data_len - 150 } else { data_len + 150 };
            let slice2 = mk_slice(9, 1, true, with_parent, other_len);
            let slice3 = mk_slice(9, 1, false, with_parent, data_len);
            let shreds2 = catch(std::panic::AssertUnwindSafe(|| a.shred(&slice2, &sk))).ok().and_then(|r| r.ok());
            let shreds3 = catch(std::panic::AssertUnwindSafe(|| a.shred(&slice3, &sk))).ok().and_then(|r| r.ok());
            for (fname, keep) in &keeps {
                for variant in ["cross-shredder", "mixed-sizes", "mixed-same-size"] {
                    let mut arr: [Option<ValidatedShred>; TOTAL_SHREDS] = [const { None }; TOTAL_SHREDS];
                    for (k, i) in keep.iter().enumerate() {
                        let src = match variant {
                            "mixed-sizes" if k % 5 == 4 => shreds2.as_ref(),
                            "mixed-same-size" if k % 5 == 4 => shreds3.as_ref(),
                            _ => Some(&shreds),
                        };
                        if let Some(src) = src {
                            arr[*i] = Some(src[*i].clone());
                        }
                    }
                    let before: Vec<Option<Vec<u8>>> = arr.iter().map(|s| s.as_ref().map(enc)).collect();
                    st.evals.fetch_add(1, Ordering::Relaxed);
                    st.nontrivial.fetch_add(1, Ordering::Relaxed);
                    let replay = json!({"path": name, "variant": variant, "payload_len": plen, "with_parent": with_parent, "subset": fname});
                    match catch(std::panic::AssertUnwindSafe(|| b.deshred(&mut arr).map(|_| ()))) {
                        Err(msg) => report.violation(format!("C11:deshred-panics:{name}:{variant}"), format!("deshred panicked: {msg}"), replay),
                        Ok(Ok(())) => {}
                        Ok(Err(e)) => {
                            let after: Vec<Option<Vec<u8>>> = arr.iter().map(|s| s.as_ref().map(enc)).collect();
                            if after != before {
                                let filled = after.iter().filter(|x| x.is_some()).count() - before.iter().filter(|x| x.is_some()).count();
                                report.violation(
                                    format!("C11:array-modified-on-error:{name}:{variant}"),
                                    format!("deshred failed with {e:?} ({fname}, payload {plen}) but the supplied array changed ({filled} entries filled in)"),
                                    replay,
                                );
                            }
                        }
                    }
                }
            }
        }
    });
}

pub fn lengths_for(max: usize, tier: Tier) -> (Vec<usize>, Vec<usize>) {
    let mut l: Vec<usize> = Vec::new();
    match tier {
        Tier::Thorough => l.extend(0..=max + 64),
        Tier::Quick => {
            l.extend((0..=max + 64).step_by(61));
            l.extend(0..140);
            l.extend(max - 70..=max + 64);
            // both sides of every shard-size step (64-byte quanta of the 32 data shards)
            for k in (0..=max).step_by(2048) {
                l.extend([k.saturating_sub(1), k, k + 1]);
            }
        }
    }
    l.sort();
    l.dedup();
    // covering set for the full structured subset family
    let mut f: Vec<usize> = vec![9, 10, 49, 50, 63, 64, 65, 100, 2047, 2048, 2049, max / 2, max - 1, max];
    if tier == Tier::Thorough {
        f.extend((0..64).map(|r| 4096 + r));
        f.extend((0..64).map(|r| max - 64 + r));
    }
    f.retain(|x| *x <= max);
    for x in &f {
        if !l.contains(x) {
            l.push(*x);
        }
    }
    l.sort();
    (l, f)
}

/// One shredder instance used for a whole sequence of slices (as a node's shredder pool does):
/// every ordered pair of sizes from a small menu (long then short included), shred with the shared
/// instance, restore with the same instance from two 32-subsets.
fn run_instance_reuse<S: Shredder>(name: &'static str, report: &Report, st: &Stats) {
    let sk = SecretKey::new(&mut StdRng::seed_from_u64(seed() ^ 0x12));
    let max = S::MAX_DATA_SIZE - overhead(true);
    let sizes: Vec<usize> = vec![0, 1, 17, 64, 1000, 2000, max / 2, max];
    for a in &sizes {
        for b in &sizes {
            let mut shredder = S::default();
            for (step, len) in [a, b, a].into_iter().enumerate() {
                let slice = mk_slice(9, step, step == 2, true, *len);
                let replay = json!({"shredder": name, "oracle": "instance-reuse", "sizes_in_sequence": [a, b, a], "step": step});
                st.evals.fetch_add(1, Ordering::Relaxed);
                st.nontrivial.fetch_add(1, Ordering::Relaxed);
                let shreds = match catch(std::panic::AssertUnwindSafe(|| shredder.shred(&slice, &sk))) {
                    Ok(Ok(s)) => s,
                    Ok(Err(e)) => {
                        report.violation(format!("C11:fitting-slice-refused:{name}:instance-reuse"), format!("slice {step} of the sequence {a},{b},{a} refused: {e:?}"), replay);
                        break;
                    }
                    Err(p) => {
                        report.violation(format!("C11:shred-panics:{name}:instance-reuse"), p, replay);
                        break;
                    }
                };
                for keep in [0..32usize, 32..64] {
                    let mut arr: [Option<ValidatedShred>; TOTAL_SHREDS] = [const { None }; TOTAL_SHREDS];
                    for i in keep.clone() {
                        arr[i] = Some(shreds[i].clone());
                    }
                    match catch(std::panic::AssertUnwindSafe(|| shredder.deshred(&mut arr))) {
                        Ok(Ok(rec)) => {
                            let got: &Slice = &rec;
                            if got != &slice {
                                report.violation(format!("C11:restored-slice-differs:{name}:instance-reuse"), format!("sequence {a},{b},{a}, slice {step}: restored slice differs"), replay.clone());
                            }
                        }
                        Ok(Err(e)) => report.violation(
                            format!("C11:enough-shreds-not-restored:{name}:instance-reuse"),
                            format!("a shredder instance that shredded slices of {a}, {b}, {a} bytes in sequence: slice {step} ({len} bytes) does not restore from 32 shreds: {e:?}"),
                            replay.clone(),
                        ),
                        Err(p) => report.violation(format!("C11:deshred-panics:{name}:instance-reuse"), p, replay.clone()),
                    }
                }
            }
        }
    }
}

/// Every sequence of three (thorough: four) operations on ONE shredder instance over
/// {shred a slice of size x, restore a slice of size x from 32 shreds made elsewhere}, x from a
/// small size menu: every shred call must give shreds a pristine instance restores to the slice,
/// every restore must give the slice - whatever the instance did before.
fn run_operation_sequences<S: Shredder>(name: &'static str, report: &Report, st: &Stats, tier: Tier) {
    let sk = SecretKey::new(&mut StdRng::seed_from_u64(seed() ^ 0x13));
    let max = S::MAX_DATA_SIZE - overhead(true);
    let sizes: Vec<usize> = vec![1, 1000, max];
    // fixtures made by pristine instances
    let built = catch(std::panic::AssertUnwindSafe(|| {
        sizes
            .iter()
            .enumerate()
            .map(|(k, len)| {
                let slice = mk_slice(11, k, false, true, *len);
                let shreds = S::default().shred(&slice, &sk).map_err(|e| format!("{e:?}"))?;
                Ok((slice, shreds))
            })
            .collect::<Result<Vec<(Slice, [ValidatedShred; TOTAL_SHREDS])>, String>>()
    }));
    let fixtures = match built {
        Ok(Ok(f)) => f,
        Ok(Err(e)) => {
            report.violation(format!("C11:fitting-slice-refused:{name}:operation-sequence"), format!("a pristine instance refuses a slice of one of the sizes {sizes:?}: {e}"), json!({"shredder": name, "oracle": "operation-sequence"}));
            return;
        }
        Err(p) => {
            report.violation(format!("C11:shred-panics:{name}:operation-sequence"), format!("a pristine instance panics shredding a slice of one of the sizes {sizes:?}: {p:.160}"), json!({"shredder": name, "oracle": "operation-sequence"}));
            return;
        }
    };
    let nops = 2 * sizes.len();
    let len = tier.pick(3usize, 4);
    let total = nops.pow(len as u32);
    for code in 0..total {
        let mut c = code;
        let ops: Vec<usize> = (0..len).map(|_| { let o = c % nops; c /= nops; o }).collect();
        let describe: Vec<String> = ops.iter().map(|o| format!("{}({})", if o % 2 == 0 { "shred" } else { "restore" }, sizes[o / 2])).collect();
        let mut shredder = S::default();
        for (step, o) in ops.iter().enumerate() {
            st.evals.fetch_add(1, Ordering::Relaxed);
            st.nontrivial.fetch_add(1, Ordering::Relaxed);
            let (slice, fx_shreds) = &fixtures[o / 2];
            let replay = json!({"shredder": name, "oracle": "operation-sequence", "operations_on_one_instance": describe, "step": step});
            let input: [ValidatedShred; TOTAL_SHREDS] = if o % 2 == 0 {
                match catch(std::panic::AssertUnwindSafe(|| shredder.shred(slice, &sk))) {
                    Ok(Ok(s)) => s,
                    Ok(Err(e)) => {
                        report.violation(format!("C11:fitting-slice-refused:{name}:operation-sequence"), format!("{describe:?} step {step}: {e:?}"), replay);
                        break;
                    }
                    Err(p) => {
                        report.violation(format!("C11:shred-panics:{name}:operation-sequence"), format!("{describe:?} step {step}: {p:.120}"), replay);
                        break;
                    }
                }
            } else {
                fx_shreds.clone()
            };
            // shreds just made are restored by a pristine instance, foreign shreds by this one
            let mut arr: [Option<ValidatedShred>; TOTAL_SHREDS] = [const { None }; TOTAL_SHREDS];
            for i in (step % 2..TOTAL_SHREDS).step_by(2) {
                arr[i] = Some(input[i].clone());
            }
            let r = if o % 2 == 0 {
                catch(std::panic::AssertUnwindSafe(|| S::default().deshred(&mut arr).map(|r| { let s: &Slice = &r; s.clone() })))
            } else {
                catch(std::panic::AssertUnwindSafe(|| shredder.deshred(&mut arr).map(|r| { let s: &Slice = &r; s.clone() })))
            };
            match r {
                Ok(Ok(got)) if &got == slice => {}
                Ok(Ok(_)) => report.violation(format!("C11:restored-slice-differs:{name}:operation-sequence"), format!("{describe:?} step {step}"), replay),
                Ok(Err(e)) => report.violation(format!("C11:enough-shreds-not-restored:{name}:operation-sequence"), format!("one instance performing {describe:?}: step {step} does not restore from 32 valid shreds: {e:?}"), replay),
                Err(p) => {
                    report.violation(format!("C11:deshred-panics:{name}:operation-sequence"), format!("one instance performing {describe:?}: step {step} panics: {p:.120}"), replay);
                    break;
                }
            }
        }
    }
}

pub fn run(tier: Tier) -> i32 {
    let report = Report::new("C11", tier, "exploration");
    let st = Stats {
        evals: AtomicUsize::new(0),
        nontrivial: AtomicUsize::new(0),
        oversize_refused: AtomicUsize::new(0),
        samples: Mutex::new(Samples::new(6)),
    };
    let (l, f) = lengths_for(RegularShredder::MAX_DATA_SIZE, tier);
    run_shredder::<RegularShredder>("regular", &l, &f, &report, &st);
    run_shredder::<CodingOnlyShredder>("coding-only", &l, &f, &report, &st);
    let (l2, f2) = lengths_for(AontShredder::MAX_DATA_SIZE, tier);
    run_shredder::<AontShredder>("aont", &l2, &f2, &report, &st);
    run_shredder::<PetsShredder>("pets", &l2, &f2, &report, &st);
    run_instance_reuse::<RegularShredder>("regular", &report, &st);
    run_instance_reuse::<CodingOnlyShredder>("coding-only", &report, &st);
    run_instance_reuse::<AontShredder>("aont", &report, &st);
    run_instance_reuse::<PetsShredder>("pets", &report, &st);
    run_operation_sequences::<RegularShredder>("regular", &report, &st, tier);
    run_operation_sequences::<CodingOnlyShredder>("coding-only", &report, &st, tier);
    run_operation_sequences::<AontShredder>("aont", &report, &st, tier);
    run_operation_sequences::<PetsShredder>("pets", &report, &st, tier);
    let err_lengths: Vec<usize> = f2.iter().copied().chain((60..4000).step_by(tier.pick(397, 41))).collect();
    run_error_paths::<RegularShredder, AontShredder>("regular->aont", &err_lengths, &report, &st);
    run_error_paths::<AontShredder, RegularShredder>("aont->regular", &err_lengths, &report, &st);
    run_error_paths::<RegularShredder, RegularShredder>("regular->regular", &err_lengths, &report, &st);
    run_error_paths::<PetsShredder, PetsShredder>("pets->pets", &err_lengths, &report, &st);
    run_error_paths::<CodingOnlyShredder, RegularShredder>("coding-only->regular", &err_lengths, &report, &st);
    run_error_paths::<RegularShredder, PetsShredder>("regular->pets", &err_lengths, &report, &st);
    let cov = json!({
        "evaluations": st.evals.load(Ordering::Relaxed),
        "distinct_nontrivial": st.nontrivial.load(Ordering::Relaxed),
        "rule": "for each of the four shredders, each serialized payload length in the list (thorough: every length 0..=max+64; quick: every 61st plus all boundary regions), with and without parent: shred, then for each subset of the base family (and of the full structured family - all 33 contiguous windows, all k-low/32-k-high splits, every prefix size 0..64, each single index missing, 64 cyclic 32-runs - on the covering lengths) deshred in place and compare the restored slice field by field and every regenerated shred byte-for-byte with the leader's; additionally one shredder instance reused for every ordered pair of sizes from {0, 1, 17, 64, 1000, 2000, max/2, max} (a, b, a in sequence; each slice restored from two 32-subsets), and error paths with >= 32 shreds (shreds of one shredder decoded by another, shreds mixed from two signed slices of different or equal size) where any failure must leave the supplied array untouched; non-trivial = every (shredder, length, parent, subset) deshred call and every oversize refusal; all distinct by construction",
        "exhaustive": tier == Tier::Thorough,
        "payload_lengths": l.len(),
        "oversize_refused": st.oversize_refused.load(Ordering::Relaxed),
        "subset_family_sizes": {"base": base_family().len(), "full": full_family().len()},
        "samples": st.samples.into_inner().unwrap().items,
    });
    report.finish(cov)
}
