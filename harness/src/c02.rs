//! C02: progress after stabilisation (E5 whole-node fault enumeration; E1 part to follow).

use std::collections::{BTreeMap, BTreeSet};
use std::time::Duration;

use alpenglow::consensus::{Cert, Pool};
use rayon::prelude::*;
use serde_json::{Value, json};

use crate::common::{Report, Samples, Tier, catch, take_thread_panics as take_panics};
use crate::simnet::*;

#[derive(Clone, Debug)]
pub struct Scenario {
    pub stakes: Vec<u64>,
    /// nodes never started (crashed), silent from the beginning
    pub crashed: BTreeSet<usize>,
    /// per-node speed: true = fast (1 ms) links out of the node, false = DELTA-ish links
    pub slow_out: Vec<bool>,
    pub slow_in: Vec<bool>,
    pub slow_ms: u64,
    /// pre-stabilisation prefix
    pub prefix: &'static str,
    pub stabilise_at_ms: u64,
    pub horizon_windows: u64,
    /// consensus messages for later slots of a window overtake earlier ones by this much per slot
    pub reorder_ms: u64,
}

#[derive(Debug)]
pub struct RunResult {
    pub finalized: Vec<Option<u64>>,
    pub alive: Vec<bool>,
    pub panics: Vec<String>,
    /// slot -> (fast-final seen, final seen, skip seen, notar seen)
    pub certs: BTreeMap<u64, (bool, bool, bool, bool)>,
    pub max_len: usize,
    pub timeline: Vec<(u64, Vec<Option<u64>>)>,
}

pub fn run_scenario(sc: &Scenario, total_ms: u64, seed: u64) -> Result<RunResult, String> {
    let n = sc.stakes.len();
    let _ = take_panics();
    catch(|| {
        let rt = runtime(seed);
        rt.block_on(async {
            let cluster = Cluster::start(&sc.stakes, Duration::from_millis(1), &sc.crashed);
            {
                let mut g = cluster.hub.inner.lock().unwrap();
                for a in 0..n {
                    for b in 0..n {
                        let slow = sc.slow_out[a] || sc.slow_in[b];
                        g.delay[a][b] = Duration::from_millis(if a == b { 0 } else if slow { sc.slow_ms } else { 1 });
                    }
                }
                g.a2a_reorder_ms = sc.reorder_ms;
                match sc.prefix {
                    "isolate-one" => {
                        let victim = (0..n).find(|i| !sc.crashed.contains(i)).unwrap();
                        for o in 0..n {
                            if o != victim {
                                g.cut.insert((victim, o));
                                g.cut.insert((o, victim));
                            }
                        }
                    }
                    "partition" => {
                        let live: Vec<usize> = (0..n).filter(|i| !sc.crashed.contains(i)).collect();
                        let (a, b) = live.split_at(2.min(live.len()));
                        for x in a {
                            for y in b {
                                g.cut.insert((*x, *y));
                                g.cut.insert((*y, *x));
                            }
                        }
                    }
                    "hold-all" => g.hold = true,
                    "lossy-partition" => {
                        let live: Vec<usize> = (0..n).filter(|i| !sc.crashed.contains(i)).collect();
                        let (a, b) = live.split_at(2.min(live.len()));
                        for x in a {
                            for y in b {
                                g.lossy.insert((*x, *y));
                                g.lossy.insert((*y, *x));
                            }
                        }
                    }
                    _ => {}
                }
            }
            let mut timeline = Vec::new();
            let mut t = 0u64;
            let mut stabilised = sc.prefix == "none";
            while t < total_ms {
                tokio::time::sleep(Duration::from_millis(200)).await;
                t += 200;
                if !stabilised && t >= sc.stabilise_at_ms {
                    stabilised = true;
                    cluster.hub.release();
                }
                if t % 1000 == 0 {
                    timeline.push((t, cluster.finalized().await));
                }
            }
            let finalized = cluster.finalized().await;
            let alive = cluster.tasks_alive();
            let g = cluster.hub.inner.lock().unwrap();
            let mut certs: BTreeMap<u64, (bool, bool, bool, bool)> = BTreeMap::new();
            for (_, _, c) in &g.certs {
                let e = certs.entry(c.slot().inner()).or_default();
                match c {
                    Cert::FastFinal(_) => e.0 = true,
                    Cert::Final(_) => e.1 = true,
                    Cert::Skip(_) => e.2 = true,
                    Cert::Notar(_) => e.3 = true,
                    _ => {}
                }
            }
            RunResult { finalized, alive, panics: take_panics(), certs, max_len: g.max_len, timeline }
        })
    })
}

fn describe(sc: &Scenario) -> Value {
    json!({"stakes": sc.stakes, "reorder_ms": sc.reorder_ms, "crashed": sc.crashed, "slow_out": sc.slow_out, "slow_in": sc.slow_in, "slow_ms": sc.slow_ms, "prefix": sc.prefix, "stabilise_at_ms": sc.stabilise_at_ms})
}

/// Judges one run against the C02 oracle.
fn judge(report: &Report, sc: &Scenario, r: &RunResult, total_ms: u64) {
    let n = sc.stakes.len();
    let total: u64 = sc.stakes.iter().sum();
    let crashed_stake: u64 = sc.crashed.iter().map(|i| sc.stakes[*i]).sum();
    let replay = describe(sc);
    let class = format!("n{n}:crashed{}:{}:slow{}:reorder{}", sc.crashed.len(), sc.prefix, sc.slow_ms, sc.reorder_ms);
    if !r.panics.is_empty() {
        report.violation(format!("C02:node-task-panicked:{class}"), format!("{:?}", r.panics.first()), replay.clone());
    }
    // progress: after stabilisation, within the horizon, every live node's finalized slot has advanced well
    let after_ms = total_ms - sc.stabilise_at_ms;
    // one window of a live leader takes 4 * 400 ms; a crashed leader's window costs about 3*250+10 + 4*400 ms as well
    let expected_windows = after_ms / 2800;
    let need_slot = expected_windows.saturating_sub(2) * 4;
    let fins: Vec<u64> = r.finalized.iter().flatten().copied().collect();
    let min_fin = fins.iter().copied().min().unwrap_or(0);
    if min_fin < need_slot.max(4) {
        report.violation(
            format!("C02:no-progress:{class}"),
            format!("after {after_ms} ms of timely delivery the lowest finalized slot among live nodes is {min_fin} (expected at least {}): {:?}", need_slot.max(4), r.finalized),
            replay.clone(),
        );
        return;
    }
    // windows starting after stabilisation, far enough before the end for every node to finish them
    let first_window = (sc.stabilise_at_ms / 1600 + 3) * 4;
    let last_slot = min_fin.saturating_sub(4);
    let responsive = total - crashed_stake;
    let mut checked = 0;
    for slot in first_window..=last_slot {
        let leader = leader_of(slot, n);
        let c = r.certs.get(&slot).copied().unwrap_or_default();
        if sc.crashed.contains(&leader) {
            if !c.2 && (c.0 || c.1) {
                report.violation(format!("C02:crashed-leader-slot-finalized:{class}"), format!("slot {slot} of crashed leader {leader}: certs {c:?}"), replay.clone());
            }
            continue;
        }
        checked += 1;
        if c.2 {
            report.violation(
                format!("C02:correct-leader-block-skipped:{class}"),
                format!("slot {slot} (correct leader {leader}, window after stabilisation) got a skip certificate; finalized slots {:?}", r.finalized),
                replay.clone(),
            );
        }
        if !(c.0 || c.1) {
            report.violation(
                format!("C02:correct-leader-block-not-finalized:{class}"),
                format!("slot {slot} (correct leader {leader}): no finalization certificate on the wire (certs {c:?}), finalized {:?}", r.finalized),
                replay.clone(),
            );
        }
        if responsive * 5 >= total * 4 && sc.slow_ms <= 100 && !c.0 {
            report.violation(
                format!("C02:no-fast-finalization-with-80-percent:{class}"),
                format!("slot {slot}: {responsive}/{total} stake is correct and responsive but no fast-finalization certificate was produced"),
                replay.clone(),
            );
        }
    }
    let _ = checked;
}

pub fn scenarios(tier: Tier) -> Vec<Scenario> {
    let mut v = Vec::new();
    let base = |stakes: Vec<u64>| Scenario {
        slow_out: vec![false; stakes.len()],
        slow_in: vec![false; stakes.len()],
        stakes,
        crashed: BTreeSet::new(),
        slow_ms: 1,
        prefix: "none",
        stabilise_at_ms: 0,
        horizon_windows: 4,
        reorder_ms: 0,
    };
    for n in tier.pick(vec![4usize, 6], vec![4, 5, 6]) {
        let stakes = vec![10u64; n];
        // every crash set below 20% (n >= 6: one node) and, for the slow path, below 40%
        let mut crash_sets: Vec<BTreeSet<usize>> = vec![BTreeSet::new()];
        for i in 0..n {
            if 5 * 10 < 10 * n as u64 {
                crash_sets.push([i].into_iter().collect());
            }
        }

        for cs in &crash_sets {
            for prefix in ["none", "isolate-one", "partition", "hold-all"] {
                if tier == Tier::Quick && prefix != "none" && cs.len() > 0 && cs.iter().next() != Some(&1) {
                    continue;
                }
                let mut s = base(stakes.clone());
                s.crashed = cs.clone();
                s.prefix = prefix;
                s.stabilise_at_ms = if prefix == "none" { 0 } else { 3200 };
                v.push(s);
            }
        }
        // within-window reordering of consensus messages (later slots overtake earlier ones)
        for cs in &crash_sets {
            for r in [10u64, 40] {
                let mut s = base(stakes.clone());
                s.crashed = cs.clone();
                s.reorder_ms = r;
                v.push(s);
            }
        }
        // delay profiles: per-node in/out speeds
        let masks: Vec<u32> = match tier {
            Tier::Quick => vec![0b1, 0b10, 0b1010, 0b1111_1111],
            Tier::Thorough => (1..(1u32 << (2 * n))).step_by(match n { 4 => 3, 5 => 41, _ => 67 }).collect(),
        };
        // (delays strictly below DELTA = 250 ms: at exactly DELTA a block's last shred and the
        // slot's timeout fall on the same instant and the outcome is a same-instant tie)
        let mut seen_matrices: BTreeSet<Vec<bool>> = BTreeSet::new();
        for m in masks {
            let matrix: Vec<bool> = (0..n).flat_map(|a| (0..n).map(move |b| a != b && ((m >> a & 1 == 1) || (m >> (n + b) & 1 == 1)))).collect();
            if !seen_matrices.insert(matrix) {
                continue;
            }
            for slow_ms in tier.pick(vec![100u64], vec![100, 240]) {
                let mut s = base(stakes.clone());
                s.slow_out = (0..n).map(|i| m >> i & 1 == 1).collect();
                s.slow_in = (0..n).map(|i| m >> (n + i) & 1 == 1).collect();
                s.slow_ms = slow_ms;
                v.push(s);
            }
        }
    }
    v
}

/// E1 part: every schedule prefix of a small cluster of real node cores (bounded depth, with a
/// noisy Byzantine validator), each completed fairly; the window must end decided at every node.
/// Deviation-bounded exploration of the whole node (C02-C): n = 4 real nodes, timely network; the
/// default schedule delivers every packet after 1 ms; a deviation delays ONE consensus packet (the
/// k-th routed in the run) by a given amount. Every k of the first seconds x every amount is run.
fn deviation_sweep(report: &Report, tier: Tier) -> Value {
    json!([
        deviation_sweep_for(report, tier, "4-equal", vec![10, 10, 10, 10], BTreeSet::new(), 6_000),
        // every vote between the two heavy nodes is needed for every certificate
        deviation_sweep_for(report, tier, "35-35-15-15crashed", vec![35, 35, 15, 15], [3usize].into_iter().collect(), 8_000),
    ])
}

fn deviation_sweep_for(report: &Report, tier: Tier, label: &str, stakes: Vec<u64>, crashed: BTreeSet<usize>, total_ms: u64) -> Value {
    let n = stakes.len();
    let run = |devs: BTreeMap<u64, u64>| -> Result<(Vec<Option<u64>>, Vec<String>, u64, BTreeMap<u64, (bool, bool, bool, bool)>), String> {
        let _ = take_panics();
        catch(|| {
            let rt = runtime(17);
            rt.block_on(async {
                let cluster = Cluster::start(&stakes, Duration::from_millis(1), &crashed);
                cluster.hub.inner.lock().unwrap().deviations = devs;
                tokio::time::sleep(Duration::from_millis(total_ms)).await;
                let fin = cluster.finalized().await;
                let g = cluster.hub.inner.lock().unwrap();
                let mut certs: BTreeMap<u64, (bool, bool, bool, bool)> = BTreeMap::new();
                for (_, _, c) in &g.certs {
                    let e = certs.entry(c.slot().inner()).or_default();
                    match c {
                        Cert::FastFinal(_) => e.0 = true,
                        Cert::Final(_) => e.1 = true,
                        Cert::Skip(_) => e.2 = true,
                        Cert::Notar(_) => e.3 = true,
                        _ => {}
                    }
                }
                (fin, take_panics(), g.a2a_routed, certs)
            })
        })
    };
    let Ok((base_fin, _, routed, _)) = run(BTreeMap::new()) else {
        crate::common::machinery_failure("C02 deviation sweep: baseline run panicked");
    };
    let base_min = base_fin.iter().flatten().copied().min().unwrap_or(0);
    // packets routed in roughly the first half of the run
    let upto = routed / 2;
    let stride = tier.pick(31u64, 1);
    let amounts: Vec<u64> = tier.pick(vec![240, 1500], vec![100, 240, 700, 1500, 3000]);
    let jobs: Vec<(u64, u64)> = (0..upto).step_by(stride as usize).flat_map(|k| amounts.iter().map(move |a| (k, *a))).collect();
    let outcomes: Vec<(u64, u64, u64)> = jobs
        .par_iter()
        .map(|(k, extra)| {
            let replay = json!({"oracle": "whole-node deviation sweep", "configuration": label, "stakes": stakes, "crashed": crashed, "delayed_consensus_packet": k, "extra_delay_ms": extra, "total_ms": total_ms});
            match run([(*k, *extra)].into_iter().collect()) {
                Err(p) => {
                    report.violation(format!("C02:simulation-panicked:deviation:{label}"), p, replay);
                    (*k, *extra, 0)
                }
                Ok((fin, panics, _, certs)) => {
                    if !panics.is_empty() {
                        report.violation(format!("C02:node-task-panicked:one-delayed-packet:{label}"), format!("{:.200}", panics[0]), replay.clone());
                    }
                    let m = fin.iter().flatten().copied().min().unwrap_or(0);
                    // one packet late by `extra`: at most the windows overlapping the delay are lost
                    let slack = 4 + 4 * (extra / 1600 + 1);
                    if m + slack < base_min {
                        report.violation(
                            format!("C02:no-progress:one-packet-delayed-{extra}ms:{label}"),
                            format!("consensus packet #{k} delayed by {extra} ms: lowest finalized slot after {total_ms} ms is {m}, undisturbed run {base_min}: {fin:?}"),
                            replay.clone(),
                        );
                    }
                    if *extra < 250 {
                        // still within the delay bound: no correct leader's slot may be skipped
                        for (s, c) in &certs {
                            let leader = leader_of(*s, n);
                            if *s > 0 && *s + 8 < m && c.2 && !crashed.contains(&leader) {
                                report.violation(
                                    format!("C02:correct-leader-block-skipped:one-packet-delayed-within-bound:{label}"),
                                    format!("consensus packet #{k} delayed by {extra} ms (below DELTA): slot {s} got a skip certificate"),
                                    replay.clone(),
                                );
                                break;
                            }
                        }
                    }
                    let skipped = certs.iter().filter(|(s, c)| c.2 && !crashed.contains(&leader_of(**s, n))).count() as u64;
                    (*k, *extra, m * 1000 + skipped)
                }
            }
        })
        .collect();
    let distinct: BTreeSet<u64> = outcomes.iter().map(|o| o.2).collect();
    println!("  deviation sweep [{label}]: {} runs over {} routed consensus packets (stride {stride}), baseline finalized {base_min}, distinct outcomes {:?}", outcomes.len(), upto, distinct);
    json!({"configuration": label, "stakes": stakes, "crashed": crashed, "runs": outcomes.len(), "consensus_packets_in_range": upto, "stride": stride, "extra_delays_ms": amounts, "baseline_lowest_finalized": base_min, "distinct_outcomes_lowest_finalized_x1000_plus_skipped_slots_of_live_leaders": distinct, "virtual_ms_per_run": total_ms})
}

/// The cluster systems (real node cores + one Byzantine validator) explored by C02-A; C05 runs the
/// same systems with its own-vote monitors.
pub fn liveness_systems() -> Vec<crate::cluster::ClusterSys> {
    use crate::cluster::{ClusterAlphabet, ClusterSys, PrefixOp};
    use crate::common::make_epoch;
    use crate::engine::{BfsLimits, bfs};
    use crate::pooldrv::{Blk, CK, VK, VoteSpec};
    use std::sync::Arc;
    let g = Blk { slot: 0, idx: 0 };
    let b = |s, i| Blk { slot: s, idx: i };
    let byz_votes_at = |byz: usize, slot: u64, kinds: &[(VK, u8)]| -> Vec<VoteSpec> { kinds.iter().map(|(k, blk)| VoteSpec { kind: *k, slot, blk: *blk, signer: byz }).collect() };
    let byz_votes = |byz: usize, kinds: &[(VK, u8)]| byz_votes_at(byz, 1, kinds);
    let full = [(VK::Notar, 0u8), (VK::Notar, 1), (VK::Skip, 0), (VK::NotarFb, 0), (VK::SkipFb, 0)];
    let k4 = Arc::new(make_epoch(&[19, 27, 27, 27]));
    let k5 = Arc::new(make_epoch(&[21, 21, 21, 19, 18]));
    // second window: window 0 ran normally (block of slot 1 fast-finalized, slots 2-3 skipped), the
    // Byzantine validator leads window 1 and equivocates in slot 4 on top of the ready parent
    let k4b = Arc::new(make_epoch(&[27, 19, 27, 27]));
    let mut second = ClusterSys::new(
        "K4-second-window-byzantine-leader",
        k4b.clone(),
        vec![0, 2, 3],
        1,
        ClusterAlphabet {
            byz_votes: byz_votes_at(1, 4, &[(VK::Skip, 0), (VK::Notar, 0), (VK::Notar, 1)]),
            forge: vec![],
            blocks: vec![(b(1, 0), g), (b(4, 0), b(1, 0)), (b(4, 1), b(1, 0))],
            invalid: vec![],
            windows: vec![4],
        },
    );
    second.max_msgs = 48;
    second.prefix = vec![PrefixOp::BlockToAll(0), PrefixOp::DeliverAll];
    for _ in 0..5 {
        second.prefix.push(PrefixOp::TimersOnce(0));
        second.prefix.push(PrefixOp::DeliverAll);
    }
    // Byzantine leader proposes in slots 1 and 2 (two versions each, children on either version)
    let two_slots = ClusterSys::new(
        "K4-byzantine-leader-two-slots",
        k4.clone(),
        vec![1, 2, 3],
        0,
        ClusterAlphabet {
            byz_votes: [byz_votes_at(0, 1, &[(VK::Notar, 0), (VK::Skip, 0)]), byz_votes_at(0, 2, &[(VK::Notar, 0), (VK::Notar, 1)])].concat(),
            forge: vec![],
            blocks: vec![(b(1, 0), g), (b(1, 1), g), (b(2, 0), b(1, 0)), (b(2, 1), b(1, 1))],
            invalid: vec![],
            windows: vec![0],
        },
    );
    // one correct node lags a whole window behind: the other two (with the Byzantine validator's
    // votes) finalized slot 1, skipped 2-3 and notarized + finalized the Byzantine leader's block of
    // slot 4 while nothing reached the third node; the leader then falls silent for slots 5-7
    let mut lagging = ClusterSys::new(
        "K4-one-node-lags-a-window",
        k4b.clone(),
        vec![0, 2, 3],
        1,
        ClusterAlphabet {
            byz_votes: vec![
                VoteSpec { kind: VK::Notar, slot: 1, blk: 0, signer: 1 },
                VoteSpec { kind: VK::Final, slot: 1, blk: 0, signer: 1 },
                VoteSpec { kind: VK::Skip, slot: 2, blk: 0, signer: 1 },
                VoteSpec { kind: VK::Skip, slot: 3, blk: 0, signer: 1 },
                VoteSpec { kind: VK::Notar, slot: 4, blk: 0, signer: 1 },
                VoteSpec { kind: VK::Final, slot: 4, blk: 0, signer: 1 },
            ],
            forge: vec![(CK::Notar, 4, 0), (CK::Final, 4, 0), (CK::Final, 1, 0), (CK::Skip, 3, 0)],
            blocks: vec![(b(1, 0), g), (b(4, 0), b(1, 0))],
            invalid: vec![],
            windows: vec![0, 4],
        },
    );
    lagging.max_msgs = 64;
    let ahead = vec![0usize, 1];
    lagging.prefix = vec![PrefixOp::BlockTo(0, ahead.clone()), PrefixOp::ByzTo(0, ahead.clone()), PrefixOp::DeliverAmong(ahead.clone()), PrefixOp::ByzTo(1, ahead.clone()), PrefixOp::DeliverAmong(ahead.clone())];
    for _ in 0..5 {
        lagging.prefix.push(PrefixOp::TimersOnceAt(0, ahead.clone()));
        lagging.prefix.push(PrefixOp::DeliverAmong(ahead.clone()));
    }
    lagging.prefix.extend([PrefixOp::ByzTo(2, ahead.clone()), PrefixOp::ByzTo(3, ahead.clone()), PrefixOp::DeliverAmong(ahead.clone())]);
    lagging.prefix.extend([PrefixOp::BlockTo(1, ahead.clone()), PrefixOp::ByzTo(4, ahead.clone()), PrefixOp::DeliverAmong(ahead.clone()), PrefixOp::ByzTo(5, ahead.clone()), PrefixOp::DeliverAmong(ahead.clone())]);
    vec![
        lagging,
        two_slots,
        second,
        ClusterSys::new(
            "K4-byzantine-leader-equivocates-small-noise",
            k4.clone(),
            vec![1, 2, 3],
            0,
            ClusterAlphabet { byz_votes: byz_votes(0, &[(VK::Skip, 0), (VK::Notar, 0)]), forge: vec![], blocks: vec![(b(1, 0), g), (b(1, 1), g)], invalid: vec![], windows: vec![0] },
        ),
        ClusterSys::new(
            "K4-byzantine-leader-equivocates",
            k4.clone(),
            vec![1, 2, 3],
            0,
            ClusterAlphabet { byz_votes: byz_votes(0, &full), forge: vec![], blocks: vec![(b(1, 0), g), (b(1, 1), g)], invalid: vec![], windows: vec![0] },
        ),
        ClusterSys::new(
            "K5-correct-leader-one-crashed-one-byzantine",
            k5.clone(),
            vec![0, 1, 2],
            3,
            ClusterAlphabet { byz_votes: byz_votes(3, &full[..3]), forge: vec![(CK::Skip, 1, 0), (CK::NotarFb, 1, 0)], blocks: vec![(b(1, 0), g)], invalid: vec![1], windows: vec![0] },
        ),
    ]
}

fn run_liveness_prefixes(report: &Report, tier: Tier) -> (Value, usize, usize, usize, Vec<Value>) {
    use crate::cluster::LiveSys;
    use crate::engine::{BfsLimits, bfs};
    let systems = liveness_systems();
    if let Ok(spec) = std::env::var("C02_DEBUG") {
        // debugging aid: C02_DEBUG="<system index>:<a,b,c>" replays a prefix and prints the completion
        let (si, acts) = spec.split_once(':').unwrap();
        let sys = &systems[si.parse::<usize>().unwrap()];
        use crate::engine::Sys;
        let mut w = sys.init();
        for a in acts.split(',').filter(|x| !x.is_empty()) {
            let a: u16 = a.parse().unwrap();
            println!("step {}", sys.describe(a));
            let _ = sys.step(&mut w, a, false);
        }
        for (n, e) in w.emitted.iter().enumerate() {
            println!("before completion node v{} emitted {} msgs, timers {:?}, finalized {:?}, ready(4) {:?}", sys.nodes[n], e.len(), w.cores[n].timers, w.cores[n].pool.pool.finalized_slot(), w.cores[n].pool.pool.parents_ready(alpenglow::types::Slot::new(4)).len());
        }
        let rounds = sys.fair_completion(&mut w, std::env::var("C02_TIMEOUTS_FIRST").is_ok());
        println!("rounds {rounds}");
        if std::env::var("C02_DEBUG_WINDOW").is_ok() {
            let r = sys.correct_leader_window(&mut w, 0, true);
            println!("window stage: {:?}", r.map(|x| x.0));
        }
        for (n, e) in w.emitted.iter().enumerate() {
            println!("node v{} emitted:", sys.nodes[n]);
            for m in e {
                println!("   {m:?}");
            }
            println!("  timers {:?} q {:?}", w.cores[n].timers, w.cores[n].q);
        }
        std::process::exit(0);
    }
    let depths = [tier.pick(3, 7), tier.pick(3, 7), tier.pick(3, 8), tier.pick(4, 8), tier.pick(2, 7), tier.pick(3, 7)];
    let mut per = Vec::new();
    let (mut tot_states, mut tot_trans, mut tot_compl) = (0usize, 0usize, 0usize);
    let mut traces: Vec<Value> = Vec::new();
    // the lagging-node system (index 0) replays a long start-state prefix for every expansion; it runs
    // last, when the whole-node parts of the check have released the cores
    let mut order: Vec<(crate::cluster::ClusterSys, usize)> = systems.into_iter().zip(depths).collect();
    order.rotate_left(1);
    for (inner, depth) in order {
        let name = inner.name.clone();
        let stakes = inner.epoch.stakes.clone();
        let nodes = inner.nodes.clone();
        let sys = LiveSys::new(inner);
        let limits = BfsLimits::new(depth, tier.pick(1_000_000, 20_000_000), tier.pick(60, 200));
        let st = bfs(&sys, &name, &limits, report);
        let completions = sys.completions.load(std::sync::atomic::Ordering::Relaxed);
        let shapes: Vec<String> = sys.shapes.lock().unwrap().iter().cloned().collect();
        println!(
            "  {name}: prefix states={} transitions={} depth_completed={} fair completions={} next windows={} max rounds={} decided shapes={:?} capped={:?}",
            st.states, st.transitions, st.depth_completed, completions, sys.windows_run.load(std::sync::atomic::Ordering::Relaxed), sys.max_rounds.load(std::sync::atomic::Ordering::Relaxed), shapes, st.capped
        );
        tot_states += st.states;
        tot_trans += st.transitions;
        tot_compl += completions;
        traces.extend(st.samples.iter().take(1).cloned());
        let mut j = st.to_json();
        j["system"] = json!(name);
        j["depth_bound"] = json!(depth);
        j["stakes"] = json!(stakes);
        j["real_nodes"] = json!(nodes);
        j["fair_completions"] = json!(completions);
        j["correct_leader_windows_after_completion"] = json!(sys.windows_run.load(std::sync::atomic::Ordering::Relaxed));
        j["decided_shapes_slots_1_to_3"] = json!(shapes);
        per.push(j);
    }
    (json!(per), tot_states, tot_trans, tot_compl, traces)
}

/// Debugging aid: C02_SLOW_ALL=<ms>,<slot> runs the n=4 all-links-slow scenario and prints the
/// consensus messages seen on the wire around the slot.
fn debug_slow(spec: &str) {
    let (ms, slot) = spec.split_once(',').unwrap();
    let (ms, slot): (u64, u64) = (ms.parse().unwrap(), slot.parse().unwrap());
    let rt = runtime(7);
    rt.block_on(async {
        let cluster = Cluster::start(&[10, 10, 10, 10], Duration::from_millis(1), &BTreeSet::new());
        {
            let mut g = cluster.hub.inner.lock().unwrap();
            for a in 0..4 {
                for b in 0..4 {
                    g.delay[a][b] = Duration::from_millis(if a == b { 0 } else { ms });
                }
            }
        }
        tokio::time::sleep(Duration::from_millis(16_000)).await;
        let g = cluster.hub.inner.lock().unwrap();
        let mut lines: Vec<(u64, String)> = Vec::new();
        for (t, from, v) in &g.votes {
            if v.slot().inner() >= slot.saturating_sub(4) && v.slot().inner() <= slot {
                lines.push((*t, format!("t={t} v{from} vote {:?} slot {}", crate::nodesys::vote_tag(v), v.slot().inner())));
            }
        }
        for (t, from, c) in &g.certs {
            if c.slot().inner() >= slot.saturating_sub(4) && c.slot().inner() <= slot {
                lines.push((*t, format!("t={t} v{from} CERT {:?} slot {}", crate::pooldrv::cert_kind(c), c.slot().inner())));
            }
        }
        lines.sort();
        lines.dedup();
        for (_, l) in lines {
            println!("{l}");
        }
    });
}

/// One real Pool + Votor core, every order of blocks, certificates, votes and timeouts up to the
/// depth bound: in every settled state every votable block of a correct leader has been voted for.
fn run_obligations(report: &Report, tier: Tier) -> Value {
    use crate::engine::{BfsLimits, Sys, bfs};
    use crate::nodesys::{NodeAlphabet, NodeSys};
    use crate::pooldrv::{Blk, CK, GENESIS};
    use crate::poolsys::cert;
    let x3 = std::sync::Arc::new(crate::common::make_epoch(&[10, 45, 45]));
    let b = |slot: u64, idx: u8| Blk { slot, idx };
    // window 1 went wrong before stabilisation: the block of slot 5 arrived, its parent never did, the
    // window timed out. Window 2 has a correct leader building on the genesis block.
    let stale = NodeAlphabet {
        foreign: (1..=7).map(|s| cert(CK::Skip, s, 0, &[1], &[2])).collect(),
        blocks: vec![(b(5, 0), b(4, 1)), (b(8, 0), GENESIS), (b(9, 0), b(8, 0)), (b(10, 0), b(9, 0))],
        invalid: vec![],
        first_shreds: vec![],
        windows: vec![0, 4, 8],
        forge: vec![],
    };
    let mut systems: Vec<NodeSys> = Vec::new();
    {
        let mut sys = NodeSys::new("stale-pending-block-then-correct-leader-window", x3.clone(), 0, stale.clone(), 0);
        let nf = stale.foreign.len() as u16;
        let timer4 = nf + stale.blocks.len() as u16 + 1;
        // skip certificates of slots 1-3 (ParentReady for slot 4), the orphan block of slot 5, window 1 times out
        // ... and two of the four skip certificates of window 1 are already in
        sys.prefix = vec![0, 1, 2, nf, timer4, timer4, timer4, timer4, timer4, 3, 4];
        systems.push(sys);
        if tier == Tier::Thorough {
            let mut sys = NodeSys::new("stale-pending-block-then-correct-leader-window-lag1", x3.clone(), 0, stale, 1);
            sys.prefix = vec![0, 1, 2, nf, timer4, timer4, timer4, timer4, timer4, 3, 4];
            systems.push(sys);
        }
    }
    systems.push(NodeSys::new("slots1-2-parent-rule", x3.clone(), 0, crate::c05::alpha_slots12(), 0));
    if tier == Tier::Thorough {
        systems.push(NodeSys::new("window-boundary-3-4-5", x3.clone(), 0, crate::c05::alpha_boundary(), 0));
    }
    if tier == Tier::Thorough {
        let alpha = crate::c05::alpha_handover();
        let first_block = alpha.foreign.len() as u16;
        let mut hs = NodeSys::new("handover-after-notarizing-window-0", x3.clone(), 0, alpha, 0);
        hs.prefix = vec![first_block, first_block + 1, first_block + 2];
        systems.push(hs);
    }
    let mut per = Vec::new();
    for sys in systems.iter_mut() {
        sys.crash_focus = Some("C02");
        sys.obligations = true;
        // the prefix must have produced the intended start state
        let _ = sys.init();
        let depth = if sys.name.starts_with("stale") { tier.pick(6, 9) } else { tier.pick(4, 7) };
        // the wall budget is a safety net only: the quick depth bounds complete in a few seconds, but
        // this part shares the cores with the other parts of the check
        let limits = BfsLimits::new(depth, tier.pick(300_000, 20_000_000), tier.pick(45, 150));
        let st = bfs(&*sys, &sys.name, &limits, report);
        println!("  obligations/{}: states={} transitions={} depth_completed={} outcomes={} capped={:?}", sys.name, st.states, st.transitions, st.depth_completed, st.distinct_outcomes, st.capped);
        let mut j = st.to_json();
        j["system"] = json!(sys.name);
        j["lag"] = json!(sys.lag);
        j["blocks"] = json!(sys.alpha.blocks.iter().map(|(b, p)| format!("(s{},b{})<-(s{},b{})", b.slot, b.idx, p.slot, p.idx)).collect::<Vec<_>>());
        per.push(j);
    }
    json!(per)
}

pub fn run(tier: Tier) -> i32 {
    if let Ok(spec) = std::env::var("C02_LOSSY") {
        // debugging aid: C02_LOSSY=<n>,<total ms>: messages across a 2|n-2 partition are LOST for 3.2 s
        let (n, total) = spec.split_once(',').unwrap();
        let n: usize = n.parse().unwrap();
        let sc = Scenario { stakes: vec![10; n], crashed: BTreeSet::new(), slow_out: vec![false; n], slow_in: vec![false; n], slow_ms: 1, prefix: "lossy-partition", stabilise_at_ms: 3200, horizon_windows: 4, reorder_ms: 0 };
        match run_scenario(&sc, total.parse().unwrap(), 7) {
            Ok(r) => {
                println!("finalized {:?} alive {:?} panics {:?}", r.finalized, r.alive, r.panics);
                for (t, f) in r.timeline {
                    println!("  t={t} {f:?}");
                }
            }
            Err(p) => println!("panic {p}"),
        }
        return 0;
    }
    if let Ok(spec) = std::env::var("C02_SLOW_ALL") {
        debug_slow(&spec);
        return 0;
    }
    let report = Report::new("C02", tier, "model_checking");
    // the four parts are independent; they run side by side (the explorations on two threads of
    // their own, the whole-node runs through the rayon pool)
    let report_ref = &report;
    let cov = std::thread::scope(|scope| {
    let bfs_part = scope.spawn(move || rayon::join(|| run_liveness_prefixes(report_ref, tier), || run_obligations(report_ref, tier)));
    let deviation_part = scope.spawn(move || if crate::common::replay_req().is_some() { json!(null) } else { deviation_sweep(report_ref, tier) });
    let scs = if crate::common::replay_req().is_some() { Vec::new() } else { scenarios(tier) };
    let total_ms = tier.pick(12_000u64, 16_000);
    let samples = std::sync::Mutex::new(Samples::new(5));
    let inconclusive = std::sync::Mutex::new(Vec::<Value>::new());
    let evals = std::sync::atomic::AtomicUsize::new(0);
    scs.par_iter().for_each(|sc| {
        evals.fetch_add(1, std::sync::atomic::Ordering::Relaxed);
        let r1 = run_scenario(sc, total_ms, 7);
        match r1 {
            Err(p) => report.violation("C02:simulation-panicked".to_string(), p, describe(sc)),
            Ok(r) => {
                samples.lock().unwrap().push(|| json!({"scenario": describe(sc), "finalized_at_end": r.finalized, "timeline": r.timeline.iter().step_by(4).collect::<Vec<_>>() }));
                judge(&report, sc, &r, total_ms);
            }
        }
    });
    let mut all_samples = samples.into_inner().unwrap().items;
    // ---- Byzantine previous leader at the hand-over (n = 5, attacker 19 %): the next, correct
    // leader starts optimistically on a block the others never notarize and must switch parents
    let mut handover_runs = Vec::new();
    use crate::c10::Handover;
    // second stake vector: the next leader alone is below 20 %, so a block only it holds can never
    // be certified through fallback votes and the parent switch is the only way forward
    let handover_jobs: Vec<(Handover, Vec<u64>)> = [vec![21u64, 20, 20, 19, 20], vec![22, 21, 21, 18, 18]]
        .into_iter()
        .filter(|_| crate::common::replay_req().is_none())
        .flat_map(|st| [Handover::Equivocate, Handover::OnlyNextLeader, Handover::LastTwoOnlyNextLeader].into_iter().map(move |v| (v, st.clone())))
        .collect();
    let handover_results: Vec<(Handover, Vec<u64>, Result<crate::c10::Outcome, String>)> = handover_jobs.into_par_iter().map(|(v, st)| { let r = crate::c10::run_handover(v, &st); (v, st, r) }).collect();
    for (variant, stakes, result) in handover_results {
        evals.fetch_add(1, std::sync::atomic::Ordering::Relaxed);
        let replay = json!({"scenario": "byzantine-previous-leader-at-handover", "variant": format!("{variant:?}"), "stakes": stakes, "attacker": 3, "next_leader": 4});
        let variant = format!("{variant:?}:next-leader-{}pct", stakes[4]);
        match result {
            Err(p) => report.violation(format!("C02:simulation-panicked:handover-{variant}"), p, replay),
            Ok(o) => {
                let w: Vec<(u64, (bool, bool, bool, bool))> = (16..=19u64).map(|s| (s, o.certs.get(&s).copied().unwrap_or_default())).collect();
                handover_runs.push(json!({"variant": variant, "stakes": stakes, "finalized": o.finalized, "window_16_19_certs_ff_final_skip_notar": w}));
                if !o.panics.is_empty() {
                    report.violation(format!("C02:node-task-panicked:handover-{variant}"), format!("{:.200}", o.panics[0]), replay.clone());
                }
                for (s, c) in &w {
                    if c.2 || !(c.0 || c.1) {
                        report.violation(
                            format!("C02:correct-leader-block-{}:handover-{variant}", if c.2 { "skipped" } else { "not-finalized" }),
                            format!("slot {s} of the correct leader that follows a Byzantine leader ({variant} in the last slots of its window): certificates (fast-final, final, skip, notar) = {c:?}; finalized {:?}", o.finalized),
                            replay.clone(),
                        );
                        break;
                    }
                }
                if o.finalized.iter().flatten().any(|f| *f < 24) {
                    report.violation(format!("C02:no-progress:handover-{variant}"), format!("finalized slots after 16 s: {:?}", o.finalized), replay);
                }
            }
        }
    }
    // slow path (63 % responsive): one of the three live nodes loses all traffic for two seconds,
    // everything stalls, and only the standstill bundles can bring it back (shared with C18)
    let slow_path_loss = if crate::common::replay_req().is_some() { Vec::new() } else { crate::c07_c08_c18::whole_node_loss_recovery_for(&report, tier, "C02", true) };
    evals.fetch_add(slow_path_loss.len(), std::sync::atomic::Ordering::Relaxed);
    let deviation = deviation_part.join().unwrap_or_else(|_| crate::common::machinery_failure("C02 deviation sweep thread panicked"));
    let ((live, live_states, live_transitions, live_completions, live_traces), obligations) =
        bfs_part.join().unwrap_or_else(|_| crate::common::machinery_failure("C02 exploration thread panicked"));
    all_samples.splice(0..0, live_traces);
    let cov = json!({
        "states": live_states,
        "transitions": live_transitions,
        "traces_validated_against_impl": live_transitions,
        "fair_completions_executed_on_impl": live_completions,
        "evaluations": evals.load(std::sync::atomic::Ordering::Relaxed),
        "distinct_nontrivial": scs.len(),
        "rule": "n real Alpenglow nodes (block producer, Rotor, blockstore, repair, Votor timers) in virtual time; menu: every crash set below 20% of stake (thorough: also below 40% for the slow path) x pre-stabilisation prefix {none, one node isolated, partition 2|n-2, all traffic held} released at 3.2 s, and per-node in/out link speeds {1 ms, slow}, and within-window reordering of consensus messages (later slots overtake earlier ones by 10/40 ms per slot); each scenario is one 12-second (thorough: 16-second) virtual run judged on the certificates seen on the wire and on finalized_slot() of every live node; every scenario is distinct and non-trivial",
        "exhaustive": false,
        "fault_menu_enumerated_completely": true,
        "schedule_prefixes": "complete to the per-system depth bound listed under liveness_from_explored_prefixes (capped runs say so)",
        "virtual_ms_per_run": total_ms,
        "inconclusive": *inconclusive.lock().unwrap(),
        "liveness_from_explored_prefixes": live,
        "single_node_vote_obligations": obligations,
        "slow_path_loss_and_recovery_runs": slow_path_loss,
        "whole_node_deviation_sweep": deviation,
        "whole_node_deviation_rule": "4 real nodes on a timely network; the default schedule delivers every packet after 1 ms, a deviation delays the k-th routed consensus packet of the run by one of the listed amounts; every k in the first half of the run (quick: every 31st) x every amount is executed; the run must keep finalizing (within one window per 1.6 s of delay of the undisturbed run), no task may die, and a delay below DELTA must not get any slot skipped",
        "byzantine_previous_leader_handover_runs": handover_runs,
        "liveness_rule": "every state reached by the breadth-first exploration of schedule prefixes of 3 real node cores (real Votor + Pool each; Byzantine votes to single nodes, adversary-aggregated certificates, per-link FIFO deliveries incl. loop-back in every interleaving, blocks to single nodes, timeouts) is rebuilt and completed fairly (everything in flight delivered, held blocks repaired to the others, timeouts fired when nothing is in flight, Byzantine validator silent); on the completed world every slot of the window must be certified (skip or notarization/-fallback) or finalized at every node and the next window must have a ready parent",
        "samples": all_samples,
    });
    cov
    });
    report.finish(cov)
}
