//! C16: all nodes agree on shred routing, so fault-free dissemination reaches everyone (E3).

use std::collections::BTreeMap;
use std::net::SocketAddr;
use std::sync::{Arc, Mutex};

use alpenglow::disseminator::{Disseminator, Rotor, Turbine};
use alpenglow::network::Network;
use alpenglow::shredder::{RegularShredder, Shred, Shredder};
use alpenglow::types::Slot;
use rayon::prelude::*;
use serde_json::json;

use crate::bsdrv::leader_key;
use crate::c11::mk_slice;
use crate::common::{Epoch, Report, Samples, Tier, catch, make_epoch_ports, poll_once};

/// Network stub that records destinations.
#[derive(Clone, Default)]
pub struct RecNet {
    pub sent: Arc<Mutex<Vec<SocketAddr>>>,
}

impl Network for RecNet {
    type Send = Shred;
    type Recv = Shred;
    async fn send(&self, _m: &Shred, addr: SocketAddr) -> std::io::Result<()> {
        self.sent.lock().unwrap().push(addr);
        Ok(())
    }
    async fn send_to_many(&self, _m: &Shred, addrs: impl IntoIterator<Item = SocketAddr> + Send) -> std::io::Result<()> {
        let mut g = self.sent.lock().unwrap();
        for a in addrs {
            g.push(a);
        }
        Ok(())
    }
    async fn receive(&self) -> std::io::Result<Shred> {
        std::future::pending().await
    }
}

fn port_of(i: usize) -> u16 {
    1000 + i as u16
}

fn validator_of(addr: &SocketAddr) -> usize {
    addr.port() as usize - 1000
}

fn epoch_for(stakes: &[u64]) -> Epoch {
    make_epoch_ports(stakes, |i, ch| if ch == 1 { port_of(i) } else { 20000 + (i as u16) * 4 + ch })
}

#[derive(Clone, Copy, Debug, PartialEq, Eq)]
enum Proto {
    Rotor,
    RotorFa1,
    Turbine(usize),
}

enum Inst {
    R(Rotor<RecNet, alpenglow::disseminator::rotor::IidQuorumSampler<alpenglow::disseminator::rotor::StakeWeightedSampler>>),
    F(Rotor<RecNet, alpenglow::disseminator::rotor::FaitAccompli1Sampler<alpenglow::disseminator::rotor::sampling_strategy::PartitionSampler>>),
    T(Turbine<RecNet>),
}

struct Node {
    inst: Inst,
    net: RecNet,
}

impl Node {
    fn build(e: &Epoch, i: usize, p: Proto) -> Node {
        let net = RecNet::default();
        let inst = match p {
            Proto::Rotor => Inst::R(Rotor::new(net.clone(), e.vei(i))),
            Proto::RotorFa1 => Inst::F(Rotor::new_fa1(net.clone(), e.vei(i))),
            Proto::Turbine(f) => Inst::T(Turbine::new(net.clone(), e.vei(i)).with_fanout(f)),
        };
        Node { inst, net }
    }
    fn take(&self) -> Vec<usize> {
        std::mem::take(&mut *self.net.sent.lock().unwrap()).iter().map(validator_of).collect()
    }
    fn send(&self, s: &Shred) -> Vec<usize> {
        match &self.inst {
            Inst::R(r) => poll_once(r.send(s)).unwrap(),
            Inst::F(r) => poll_once(r.send(s)).unwrap(),
            Inst::T(r) => poll_once(r.send(s)).unwrap(),
        }
        self.take()
    }
    fn forward(&self, s: &Shred) -> Vec<usize> {
        match &self.inst {
            Inst::R(r) => poll_once(r.forward(s)).unwrap(),
            Inst::F(r) => poll_once(r.forward(s)).unwrap(),
            Inst::T(r) => poll_once(r.forward(s)).unwrap(),
        }
        self.take()
    }
}

fn stake_families(n: usize) -> Vec<(&'static str, Vec<u64>)> {
    let mut v = vec![("equal", vec![10; n])];
    if n >= 2 {
        v.push(("geometric", (0..n).map(|i| 1u64 << (i.min(20))).collect()));
        let mut d = vec![1u64; n];
        d[n - 1] = 10 * n as u64;
        v.push(("one-dominant", d));
        v.push(("increasing", (0..n).map(|i| 19 + i as u64).collect()));
        if n <= 18 {
            // lamport-scale stakes: the total is a large fraction of 2^64, where different
            // uniform-integer algorithms (with / without a rejection zone) stop agreeing bit for bit
            v.push(("huge-1e18", vec![1_000_000_000_000_000_000u64; n]));
        }
    }
    v
}

pub fn run(tier: Tier) -> i32 {
    let report = Report::new("C16", tier, "exploration");
    let lsk = leader_key();
    let slots: Vec<u64> = tier.pick(vec![0, 1, 4, 5, 8], (0..=16).chain([1 << 32, (1 << 32) + 5, u64::MAX - 9, u64::MAX - 4]).collect());
    // low indices plus the region around 2^9 and the maximum (cache keys / seeds must not alias)
    let slices: Vec<usize> = tier.pick(vec![0, 1, 2, 511, 512, 513, 1023], vec![0, 1, 2, 3, 63, 64, 65, 255, 256, 257, 511, 512, 513, 1022, 1023]);
    // shreds for every (slot, slice)
    let mut shreds: BTreeMap<(u64, usize), Vec<Shred>> = BTreeMap::new();
    let mut sh = RegularShredder::default();
    for s in &slots {
        for sl in &slices {
            let slice = mk_slice(*s + 1, *sl, *sl == 1023, *sl == 0, 100);
            let mut slice = slice;
            slice.slot = Slot::new(*s);
            let out = sh.shred(&slice, &lsk).unwrap();
            shreds.insert((*s, *sl), out.iter().map(|v| v.as_shred().clone()).collect());
        }
    }
    let mut configs: Vec<(usize, &'static str, Vec<u64>, Proto)> = Vec::new();
    let ns: Vec<usize> = tier.pick(vec![1, 2, 3, 4, 5, 7, 12], (1..=20).chain([33]).collect());
    for n in ns.iter().copied().chain(tier.pick(vec![50usize, 100], vec![50, 64, 65, 100, 200])) {
        let fams = if n >= 50 { vec![("equal", vec![10u64; n])] } else { stake_families(n) };
        for (fname, stakes) in fams {
            configs.push((n, fname, stakes.clone(), Proto::Rotor));
            configs.push((n, fname, stakes.clone(), Proto::RotorFa1));
            for f in tier.pick(vec![1usize, 2, 3, 200], vec![1, 2, 3, 4, 8, 200]) {
                if n >= 50 && f == 1 {
                    continue;
                }
                configs.push((n, fname, stakes.clone(), Proto::Turbine(f)));
            }
        }
    }
    let evals = std::sync::atomic::AtomicUsize::new(0);
    let nontrivial = std::sync::atomic::AtomicUsize::new(0);
    let skipped = Mutex::new(Vec::<String>::new());
    let samples = Mutex::new(Samples::new(5));
    configs.par_iter().for_each(|(n, fname, stakes, proto)| {
        let e = epoch_for(stakes);
        let cfg = json!({"n": n, "stakes": fname, "protocol": format!("{proto:?}")});
        // every validator builds its own instance, plus a second one queried in reverse order
        let built = catch(|| {
            let a: Vec<Node> = (0..*n).map(|i| Node::build(&e, i, *proto)).collect();
            let b: Vec<Node> = (0..*n).map(|i| Node::build(&e, i, *proto)).collect();
            (a, b)
        });
        let (nodes, nodes2) = match built {
            Ok(x) => x,
            Err(msg) => {
                // construction failures of the sampler itself are C17's subject
                skipped.lock().unwrap().push(format!("{cfg}: construction panicked: {:.80}", msg));
                return;
            }
        };
        let mut keys: Vec<(u64, usize, usize)> = Vec::new();
        for s in &slots {
            for sl in &slices {
                for i in 0..64 {
                    keys.push((*s, *sl, i));
                }
            }
        }
        // second instances are queried in reverse order first (cache purity)
        let mut rev_results: BTreeMap<(u64, usize, usize, usize), Vec<usize>> = BTreeMap::new();
        for (s, sl, i) in keys.iter().rev() {
            let shred = &shreds[&(*s, *sl)][*i];
            for v in 0..*n {
                rev_results.insert((*s, *sl, *i, v), nodes2[v].forward(shred));
            }
        }
        for (s, sl, i) in &keys {
            let shred = &shreds[&(*s, *sl)][*i];
            let leader = e.info.leader(Slot::new(*s)).id.inner() as usize;
            evals.fetch_add(1, std::sync::atomic::Ordering::Relaxed);
            nontrivial.fetch_add(1, std::sync::atomic::Ordering::Relaxed);
            let replay = json!({"config": cfg, "slot": s, "slice": sl, "shred": i});
            samples.lock().unwrap().push(|| replay.clone());
            // the leader sends first (as in a real run: it never handles its own shred before
            // sending it, so nothing about this key is cached in its instance yet) ...
            let first = nodes[leader].send(shred);
            // ... and must name the same first hop once its instance has seen the key
            let first_again = nodes2[leader].send(shred);
            if first_again != first {
                report.violation(
                    format!("C16:depends-on-call-order-or-instance:{proto:?}"),
                    format!("leader {leader}: a fresh instance sends (slot {s}, slice {sl}, shred {i}) to {first:?}, an instance that handled the key before sends it to {first_again:?}"),
                    replay.clone(),
                );
                return;
            }
            // what every instance does when handed the shred
            let fw: Vec<Vec<usize>> = (0..*n).map(|v| nodes[v].forward(shred)).collect();
            for v in 0..*n {
                if rev_results[&(*s, *sl, *i, v)] != fw[v] {
                    report.violation(
                        format!("C16:depends-on-call-order-or-instance:{proto:?}"),
                        format!("validator {v}: two instances / call orders route (slot {s}, slice {sl}, shred {i}) differently: {:?} vs {:?}", fw[v], rev_results[&(*s, *sl, *i, v)]),
                        replay.clone(),
                    );
                    return;
                }
            }
            if first.len() != 1 {
                report.violation(format!("C16:leader-sends-to-{}-nodes:{proto:?}", first.len()), format!("{first:?}"), replay.clone());
                return;
            }
            // every instance names the same first hop
            for v in 0..*n {
                let other = nodes[v].send(shred);
                if other != first {
                    report.violation(
                        format!("C16:instances-disagree-on-first-hop:{proto:?}"),
                        format!("validator {leader} routes (slot {s}, slice {sl}, shred {i}) to {first:?}, validator {v}'s instance to {other:?}"),
                        replay.clone(),
                    );
                    return;
                }
            }
            // run the fault-free dissemination on the recordings
            let mut received = vec![0usize; *n];
            let mut queue = vec![first[0]];
            let mut broadcasts = 0;
            let mut steps = 0;
            while let Some(v) = queue.pop() {
                received[v] += 1;
                steps += 1;
                if steps > 4 * *n + 8 {
                    break;
                }
                // a node forwards whenever it receives (the node's handler forwards before storing)
                let out = &fw[v];
                if !out.is_empty() {
                    broadcasts += 1;
                }
                queue.extend(out.iter().copied());
            }
            for v in 0..*n {
                if v == leader {
                    continue;
                }
                if received[v] != 1 {
                    report.violation(
                        format!("C16:validator-receives-{}-times:{proto:?}", received[v].min(2)),
                        format!("fault-free dissemination of (slot {s}, slice {sl}, shred {i}) with leader {leader}: validator {v} receives it {} times (receipts {received:?})", received[v]),
                        replay.clone(),
                    );
                    return;
                }
            }
            if matches!(proto, Proto::Rotor | Proto::RotorFa1) && *n > 1 && broadcasts != 1 && !(*n == 2 && broadcasts == 0) {
                // n == 2: relay == the only non-leader (or the leader), possibly nothing left to broadcast to
                let expect_zero = (0..*n).all(|v| v == leader || v == first[0]);
                if !(expect_zero && broadcasts == 0) {
                    report.violation(
                        format!("C16:rotor-{broadcasts}-relay-broadcasts"),
                        format!("(slot {s}, slice {sl}, shred {i}): {broadcasts} relay broadcasts"),
                        replay.clone(),
                    );
                    return;
                }
            }
        }
    });
    let skipped = skipped.into_inner().unwrap();
    let cov = json!({
        "evaluations": evals.load(std::sync::atomic::Ordering::Relaxed),
        "distinct_nontrivial": nontrivial.load(std::sync::atomic::Ordering::Relaxed),
        "rule": "for every configuration (validator count x stake family x protocol in {Rotor::new, Rotor::new_fa1, Turbine fanout 1/2/3/200}) every validator builds two independent instances over a recording network; for every (slot, slice, shred) triple all instances must route identically (also when queried in reverse order first), then the fault-free dissemination is executed on the recorded sends/forwards: every non-leader validator must receive the shred exactly once, with exactly one relay broadcast under Rotor; every triple of every configuration is a distinct non-trivial case",
        "exhaustive": true,
        "configurations": configs.len(),
        "triples_per_configuration": slots.len() * slices.len() * 64,
        "configurations_skipped_because_sampler_construction_panics": skipped,
        "samples": samples.into_inner().unwrap().items,
    });
    report.finish(cov)
}
