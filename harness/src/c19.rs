//! C19: wire format - exact round trips, strict decoding, stable re-encoding, one datagram (E3).

use std::sync::Mutex;
use std::sync::atomic::{AtomicUsize, Ordering};

use alpenglow::consensus::{
    Cert, ConsensusMessage, FastFinalCert, FinalCert, FinalVote, NotarCert, NotarFallbackCert, NotarFallbackVote,
    NotarVote, SkipCert, SkipFallbackVote, SkipVote, Vote,
};
use alpenglow::crypto::merkle::BlockHash;
use alpenglow::network::MTU_BYTES;
use alpenglow::repair::{RepairRequest, RepairRequestType, RepairResponse};
use alpenglow::shredder::{RegularShredder, Shred, ShredIndex, Shredder};
use alpenglow::types::{SliceIndex, Slot};
use alpenglow::{Transaction, ValidatorInfo};
use rayon::prelude::*;
use serde_json::json;
use wincode::config::DefaultConfig;
use wincode::{SchemaRead, SchemaWrite};

use crate::bsdrv::leader_key;
use crate::c11::{mk_slice, slice_index};
use crate::common::{Report, Samples, Tier, bh, catch, make_epoch, vi};
use crate::wire::*;

struct Cx<'a> {
    report: &'a Report,
    evals: AtomicUsize,
    nontrivial: AtomicUsize,
    max_len: Mutex<(usize, String)>,
    decoded_mutants: AtomicUsize,
    samples: Mutex<Samples>,
    /// substitution values tried at every byte position of a neighbourhood message
    values: Vec<u8>,
}

trait Wire: Sized {
    fn enc(&self) -> Vec<u8>;
    fn dec(b: &[u8]) -> Result<Self, String>;
}

impl<T> Wire for T
where
    T: SchemaWrite<DefaultConfig, Src = T> + for<'de> SchemaRead<'de, alpenglow::network::NetworkMessageConfig, Dst = T>,
{
    fn enc(&self) -> Vec<u8> {
        match wincode::serialize(self) {
            Ok(b) => b,
            Err(e) => {
                ENCODE_FAILURES.lock().unwrap().push(format!("{e:?}"));
                Vec::new()
            }
        }
    }
    fn dec(b: &[u8]) -> Result<Self, String> {
        alpenglow::network::deserialize::<T>(b).map_err(|e| format!("{e:?}"))
    }
}

/// Serialization errors seen by `Wire::enc` (a message that does not encode yields no bytes).
static ENCODE_FAILURES: Mutex<Vec<String>> = Mutex::new(Vec::new());

/// Round trip + strictness + stability neighbourhood for one valid message.
fn exercise<T: Wire>(cx: &Cx, name: &str, m: &T, emitted_by_correct_node: bool, neighbourhood: bool) {
    let before = ENCODE_FAILURES.lock().unwrap().len();
    let bytes = m.enc();
    {
        let f = ENCODE_FAILURES.lock().unwrap();
        if f.len() > before && bytes.is_empty() {
            cx.report.violation(
                format!("C19:valid-message-does-not-encode:{}", name.split('/').next().unwrap_or(name)),
                format!("{name}: a message a correct node has to send cannot be serialized: {}", f.last().cloned().unwrap_or_default()),
                json!({"message": name}),
            );
            return;
        }
    }
    cx.evals.fetch_add(1, Ordering::Relaxed);
    if emitted_by_correct_node {
        let mut ml = cx.max_len.lock().unwrap();
        if bytes.len() > ml.0 {
            *ml = (bytes.len(), name.to_string());
        }
        if bytes.len() > MTU_BYTES {
            cx.report.violation(
                format!("C19:exceeds-datagram:{}", name.split('/').next().unwrap_or(name)),
                format!("{name} encodes to {} bytes > {MTU_BYTES}", bytes.len()),
                json!({"message": name, "len": bytes.len()}),
            );
        }
    }
    let replay = json!({"message": name, "len": bytes.len()});
    cx.samples.lock().unwrap().push(|| replay.clone());
    match catch(|| T::dec(&bytes)) {
        Err(p) => cx.report.violation(format!("C19:decoder-panics:{name}"), p, replay.clone()),
        Ok(Err(e)) => cx.report.violation(
            format!("C19:valid-encoding-rejected:{}", name.split('/').next().unwrap_or(name)),
            format!("{name}: own encoding does not decode: {e}"),
            replay.clone(),
        ),
        Ok(Ok(back)) => {
            if back.enc() != bytes {
                cx.report.violation(
                    format!("C19:roundtrip-differs:{}", name.split('/').next().unwrap_or(name)),
                    format!("{name}: decode(encode(m)) re-encodes to different bytes"),
                    replay.clone(),
                );
            }
        }
    }
    // one trailing byte must be rejected
    cx.evals.fetch_add(1, Ordering::Relaxed);
    cx.nontrivial.fetch_add(1, Ordering::Relaxed);
    let mut ext = bytes.clone();
    ext.push(0);
    if let Ok(Ok(_)) = catch(|| T::dec(&ext)) {
        cx.report.violation(
            format!("C19:trailing-byte-accepted:{}", name.split('/').next().unwrap_or(name)),
            format!("{name}: encoding plus one trailing byte decodes"),
            replay.clone(),
        );
    }
    if !neighbourhood {
        return;
    }
    let check = |b: &[u8], what: &str| {
        cx.evals.fetch_add(1, Ordering::Relaxed);
        cx.nontrivial.fetch_add(1, Ordering::Relaxed);
        match catch(|| T::dec(b)) {
            Err(p) => cx.report.violation(
                format!("C19:decoder-panics:{}", name.split('/').next().unwrap_or(name)),
                format!("{name} {what}: {p}"),
                json!({"message": name, "mutation": what}),
            ),
            Ok(Err(_)) => {}
            Ok(Ok(v)) => {
                cx.decoded_mutants.fetch_add(1, Ordering::Relaxed);
                // stable encoding: encode(decode(x)) must be a fixed point
                let e1 = v.enc();
                match catch(|| T::dec(&e1)) {
                    Ok(Ok(v2)) => {
                        if v2.enc() != e1 {
                            cx.report.violation(
                                format!("C19:reencoding-unstable:{}", name.split('/').next().unwrap_or(name)),
                                format!("{name} {what}: encode(decode(x)) is not a fixed point"),
                                json!({"message": name, "mutation": what}),
                            );
                        }
                    }
                    _ => cx.report.violation(
                        format!("C19:reencoding-not-decodable:{}", name.split('/').next().unwrap_or(name)),
                        format!("{name} {what}: the re-encoding of a decoded byte string does not decode"),
                        json!({"message": name, "mutation": what}),
                    ),
                }
            }
        }
    };
    for pos in 0..bytes.len() {
        for v in cx.values.iter().copied() {
            if bytes[pos] != v {
                let mut b = bytes.clone();
                b[pos] = v;
                check(&b, &format!("byte {pos} := {v:#04x}"));
            }
        }
    }
    for l in 0..bytes.len() {
        check(&bytes[..l], &format!("truncated to {l}"));
    }
    for v in [0x01u8, 0xff] {
        let mut b = bytes.clone();
        b.push(v);
        check(&b, "extended by one byte");
    }
}

fn short_strings<T: Wire>(cx: &Cx, name: &str) {
    let mut all: Vec<Vec<u8>> = vec![vec![]];
    for a in 0..=255u8 {
        all.push(vec![a]);
    }
    for a in 0..=255u8 {
        for b in [0u8, 1, 2, 3, 4, 5, 0x7f, 0x80, 0xff] {
            all.push(vec![a, b]);
        }
    }
    for b in all {
        cx.evals.fetch_add(1, Ordering::Relaxed);
        cx.nontrivial.fetch_add(1, Ordering::Relaxed);
        if let Err(p) = catch(|| T::dec(&b).map(|_| ())) {
            cx.report.violation(format!("C19:decoder-panics:{name}"), format!("{name} on {b:?}: {p}"), json!({"bytes": b}));
        }
    }
}

/// The decoder every received datagram really goes through is `UdpNetwork`'s (Linux `recvmmsg` path):
/// on a real loopback socket, a valid encoding with bytes appended, cut short, or followed by a second
/// complete encoding must not be delivered as a message; the clean sentinel sent right after must be
/// the first thing `receive()` returns.
fn udp_probe<T>(rt: &tokio::runtime::Runtime, report: &Report, family: &str, valid: &T, sentinel: &T) -> usize
where
    T: Wire + Send + Sync + 'static + SchemaWrite<DefaultConfig, Src = T> + for<'de> SchemaRead<'de, alpenglow::network::NetworkMessageConfig, Dst = T>,
{
    use alpenglow::network::{Network, UdpNetwork};
    let good = valid.enc();
    let want = sentinel.enc();
    if good.is_empty() || want.is_empty() || good == want {
        crate::common::machinery_failure(&format!("C19 udp probe: bad fixtures for {family}"));
    }
    let mut variants: Vec<(&str, Vec<u8>)> = Vec::new();
    for (name, tail) in [("one-zero-byte-appended", vec![0u8]), ("one-ff-byte-appended", vec![0xff]), ("eight-bytes-appended", vec![0x5a; 8])] {
        let mut b = good.clone();
        b.extend_from_slice(&tail);
        variants.push((name, b));
    }
    let mut twice = good.clone();
    twice.extend_from_slice(&good);
    variants.push(("two-encodings-in-one-datagram", twice));
    variants.push(("last-byte-cut", good[..good.len() - 1].to_vec()));
    let mut cases = 0;
    for (vname, bytes) in variants {
        if bytes.len() > 1472 {
            continue;
        }
        cases += 1;
        let want = want.clone();
        let r: Result<(), String> = rt.block_on(async {
            let net: UdpNetwork<T, T> = UdpNetwork::new_with_any_port();
            let to = ("127.0.0.1", net.port());
            let sock = std::net::UdpSocket::bind("127.0.0.1:0").map_err(|e| format!("machinery: {e}"))?;
            sock.send_to(&bytes, to).map_err(|e| format!("machinery: {e}"))?;
            sock.send_to(&want, to).map_err(|e| format!("machinery: {e}"))?;
            let h = tokio::spawn(async move { net.receive().await.map(|m| m.enc()).map_err(|e| format!("{e:?}")) });
            match tokio::time::timeout(std::time::Duration::from_secs(5), h).await {
                Ok(Ok(Ok(got))) if got == want => Ok(()),
                Ok(Ok(Ok(_))) => Err("delivered".to_string()),
                Ok(Ok(Err(e))) => Err(format!("machinery: receive failed: {e}")),
                Ok(Err(j)) => Err(format!("the receiving task died: {j}")),
                Err(_) => Err("machinery: sentinel not delivered within 5 s".to_string()),
            }
        });
        match r {
            Ok(()) => {}
            Err(m) if m.starts_with("machinery") => crate::common::machinery_failure(&format!("C19 udp probe {family}/{vname}: {m}")),
            Err(m) => report.violation(
                format!("C19:udp-transport-accepts-inexact-datagram:{family}:{vname}"),
                format!("a real UdpNetwork socket handed a datagram that is not exactly one encoding ({vname}, {} bytes) to the application as a {family} message: {m}", bytes.len()),
                json!({"interface": "UdpNetwork on loopback", "family": family, "variant": vname, "datagram_bytes": bytes.len()}),
            ),
        }
    }
    cases
}

fn many_validators(n: usize, template: &ValidatorInfo) -> Vec<ValidatorInfo> {
    (0..n)
        .map(|i| {
            let mut v = template.clone();
            v.id = vi(i);
            v
        })
        .collect()
}

pub fn run(tier: Tier) -> i32 {
    let report = Report::new("C19", tier, "exploration");
    let cx = Cx {
        report: &report,
        evals: AtomicUsize::new(0),
        nontrivial: AtomicUsize::new(0),
        max_len: Mutex::new((0, String::new())),
        decoded_mutants: AtomicUsize::new(0),
        samples: Mutex::new(Samples::new(6)),
        values: if tier == Tier::Thorough { (0..=255u8).collect() } else { vec![0x00, 0x01, 0x7f, 0x80, 0xff] },
    };
    let e = make_epoch(&[1, 1, 1, 1]);
    let sk = &e.sks[0];
    let hashes: Vec<BlockHash> = vec![alpenglow::crypto::merkle::GENESIS_BLOCK_HASH, bh("x"), wincode::deserialize(&[0xff; 32]).unwrap()];
    let slots = [0u64, 1, 17_999, 36_000, u64::MAX];

    // ---- votes: every kind x boundary values
    let mut vote_msgs: Vec<(String, ConsensusMessage)> = Vec::new();
    for s in slots {
        for (hi, h) in hashes.iter().enumerate() {
            for signer in [0usize, 3] {
                let sl = Slot::new(s);
                for (k, v) in [
                    ("notar", Vote::new_notar(sl, h.clone(), sk, vi(signer))),
                    ("notar-fallback", Vote::new_notar_fallback(sl, h.clone(), sk, vi(signer))),
                    ("skip", Vote::new_skip(sl, sk, vi(signer))),
                    ("skip-fallback", Vote::new_skip_fallback(sl, sk, vi(signer))),
                    ("final", Vote::new_final(sl, sk, vi(signer))),
                ] {
                    if hi > 0 && matches!(k, "skip" | "skip-fallback" | "final") {
                        continue;
                    }
                    vote_msgs.push((format!("vote/{k}/slot{s}/hash{hi}/signer{signer}"), ConsensusMessage::Vote(v)));
                }
            }
        }
    }
    let nb_votes = tier.pick(5, 25);
    vote_msgs.par_iter().enumerate().for_each(|(i, (name, m))| exercise(&cx, name, m, true, i % (vote_msgs.len() / nb_votes).max(1) == 0));

    // ---- certificates for every validator count 1..=2048
    let template = e.info.validators()[0].clone();
    let ns: Vec<usize> = (1..=2048).collect();
    ns.par_iter().for_each(|n| {
        let vals = many_validators(*n, &template);
        let sl = Slot::new(7);
        let h = bh("cert-block");
        // signer sets: one, word boundaries, "all" approximated by every 64th plus the ends
        let mut sets: Vec<(String, Vec<usize>)> = vec![("first".into(), vec![0]), ("last".into(), vec![n - 1])];
        let mut b: Vec<usize> = (0..*n).filter(|i| i % 64 == 63 || i % 64 == 0).collect();
        b.push(n - 1);
        b.sort();
        b.dedup();
        sets.push(("word-boundaries".into(), b));
        if *n <= 70 || n % 257 == 0 || *n == 2048 {
            sets.push(("all".into(), (0..*n).collect()));
        }
        for (sname, set) in sets {
            let nv: Vec<NotarVote> = set.iter().map(|i| NotarVote::new(sl, h.clone(), sk, vi(*i))).collect();
            let half = set.len().div_ceil(2);
            let nfv: Vec<NotarFallbackVote> = set[half..].iter().map(|i| NotarFallbackVote::new(sl, h.clone(), sk, vi(*i))).collect();
            let sv: Vec<SkipVote> = set[..half].iter().map(|i| SkipVote::new(sl, sk, vi(*i))).collect();
            let sfv: Vec<SkipFallbackVote> = set[half..].iter().map(|i| SkipFallbackVote::new(sl, sk, vi(*i))).collect();
            let fv: Vec<FinalVote> = set.iter().map(|i| FinalVote::new(sl, sk, vi(*i))).collect();
            let certs = [
                ("notar", Cert::Notar(NotarCert::new(&nv, &vals))),
                ("fast-final", Cert::FastFinal(FastFinalCert::new(&nv, &vals))),
                ("notar-fallback", Cert::NotarFallback(NotarFallbackCert::new(&nv[..half], &nfv, &vals))),
                ("skip", Cert::Skip(SkipCert::new(&sv, &sfv, &vals))),
                ("final", Cert::Final(FinalCert::new(&fv, &vals))),
            ];
            for (k, c) in certs {
                let name = format!("cert/{k}/n{n}/{sname}");
                let back = Cert::dec(&c.enc());
                if let Ok(b) = &back {
                    if b != &c {
                        report.violation(format!("C19:roundtrip-not-equal:cert/{k}"), format!("{name}: decoded certificate != original"), json!({"n": n}));
                    }
                }
                let neighbourhood = (*n == 3 || *n == 65 || *n == 2048 || (tier == Tier::Thorough && (*n == 1 || *n == 63 || *n == 64 || *n == 128 || *n == 129))) && sname == "word-boundaries";
                exercise(&cx, &name, &ConsensusMessage::Cert(c), true, neighbourhood && (k == "notar" || k == "skip" || tier == Tier::Thorough));
            }
        }
    });

    // ---- shreds for every payload size produced by the shredder
    let lsk = leader_key();
    let max = RegularShredder::MAX_DATA_SIZE;
    let lens: Vec<usize> = match tier {
        Tier::Quick => (9..=max).step_by(257).chain([9, 10, 63, 64, 65, max - 1, max]).collect(),
        Tier::Thorough => (9..=max).step_by(7).chain([max - 1, max]).collect(),
    };
    lens.par_iter().for_each_init(RegularShredder::default, |sh, plen| {
        let with_parent = plen % 2 == 0 && *plen >= 49;
        let overhead = if with_parent { 49 } else { 9 };
        let slice = mk_slice(1023 + *plen as u64, plen % 1024, plen % 3 == 0, with_parent, plen - overhead);
        let Ok(shreds) = sh.shred(&slice, &lsk) else { return };
        for i in [0usize, 31, 32, 63] {
            let s: &Shred = shreds[i].as_shred();
            let nb = *plen == 9 || *plen == max;
            exercise(&cx, &format!("shred/payload{plen}/index{i}"), s, true, nb && i == 32);
            // the largest repair response wraps a shred
            let req = RepairRequestType::Shred((slice.slot, bh("blk")), slice.slice_index, ShredIndex::new(i).unwrap());
            exercise(&cx, &format!("repair-response/shred/payload{plen}/index{i}"), &RepairResponse::Shred(req, s.clone()), true, false);
        }
    });

    // ---- every shredder shipped with the crate, every shred index (data/coding split differs:
    // 32/32 regular and AONT, 31/33 PETS, 0/64 coding-only)
    {
        use alpenglow::shredder::{AontShredder, CodingOnlyShredder, PetsShredder};
        fn all_indices<S: Shredder>(cx: &Cx, name: &str, lsk: &alpenglow::crypto::signature::SecretKey) {
            for plen in [9usize, 300, 5000] {
                let slice = mk_slice(77, 3, plen == 300, plen >= 300, plen - if plen >= 300 { 49 } else { 9 });
                let Ok(shreds) = S::default().shred(&slice, lsk) else {
                    cx.report.violation(format!("C19:shredder-refuses-fitting-slice:{name}"), format!("payload {plen}"), json!({"shredder": name}));
                    continue;
                };
                let mut decoded: Vec<Option<alpenglow::shredder::ValidatedShred>> = Vec::new();
                for (i, s) in shreds.iter().enumerate() {
                    exercise(cx, &format!("shred/{name}/payload{plen}/index{i}"), s.as_shred(), true, false);
                    // the decoded message is the message that was sent
                    match Shred::dec(&s.as_shred().enc()) {
                        Ok(back) => {
                            if format!("{back:?}") != format!("{:?}", s.as_shred()) {
                                cx.report.violation(
                                    format!("C19:roundtrip-not-equal:shred/{name}"),
                                    format!("{name} shredder, payload {plen}, shred {i}: the decoded shred differs from the one that was encoded"),
                                    json!({"shredder": name, "payload": plen, "index": i}),
                                );
                            }
                            decoded.push(alpenglow::shredder::ValidatedShred::try_new(back, None, &lsk.to_pk()).ok());
                        }
                        Err(_) => decoded.push(None),
                    }
                }
                // and a receiver can use what it decoded: either half of the decoded shreds restores the slice
                for keep in [0..32usize, 32..64] {
                    let mut arr: [Option<alpenglow::shredder::ValidatedShred>; 64] = [const { None }; 64];
                    for i in keep.clone() {
                        arr[i] = decoded[i].clone();
                    }
                    let ok = catch(std::panic::AssertUnwindSafe(|| S::default().deshred(&mut arr).map(|r| { let sl: &alpenglow::types::Slice = &r; sl == &slice }))).ok().and_then(|r| r.ok()).unwrap_or(false);
                    if !ok {
                        cx.report.violation(
                            format!("C19:decoded-shreds-do-not-restore-the-slice:{name}"),
                            format!("{name} shredder, payload {plen}: shreds {keep:?} after encode + decode do not restore the slice they were cut from"),
                            json!({"shredder": name, "payload": plen}),
                        );
                    }
                }
            }
        }
        all_indices::<RegularShredder>(&cx, "regular", &lsk);
        all_indices::<AontShredder>(&cx, "aont", &lsk);
        all_indices::<PetsShredder>(&cx, "pets", &lsk);
        all_indices::<CodingOnlyShredder>(&cx, "coding-only", &lsk);
    }

    // ---- repair requests / responses, transactions
    let bid = (Slot::new(77), bh("repair-block"));
    let proof_roots: Vec<alpenglow::crypto::merkle::SliceRoot> =
        (0..1024).map(|i| alpenglow::crypto::hash(format!("r{i}").as_bytes()).into()).collect();
    for nslices in [1usize, 2, 3, 64, 1023, 1024] {
        let tree = alpenglow::crypto::merkle::DoubleMerkleTree::new(proof_roots[..nslices].iter());
        let last = nslices - 1;
        let proof = tree.create_proof(last);
        let rt = RepairRequestType::LastSliceRoot(bid.clone());
        exercise(&cx, &format!("repair-response/last-slice-root/{nslices}"), &RepairResponse::LastSliceRoot(rt.clone(), slice_index(last), proof_roots[last].clone(), proof.clone()), true, nslices == 3);
        let rt2 = RepairRequestType::SliceRoot(bid.clone(), slice_index(last));
        exercise(&cx, &format!("repair-response/slice-root/{nslices}"), &RepairResponse::SliceRoot(rt2.clone(), proof_roots[last].clone(), proof), true, nslices == 1024);
        exercise(&cx, &format!("repair-response/nack/{nslices}"), &RepairResponse::Nack(rt2), true, nslices == 1);
    }
    for (name, req) in [
        ("last-slice-root", MReqType::LastSliceRoot(MBlockId { slot: 77, hash: [3; 32] })),
        ("slice-root", MReqType::SliceRoot(MBlockId { slot: u64::MAX, hash: [0; 32] }, 1023)),
        ("shred", MReqType::Shred(MBlockId { slot: 0, hash: [0xff; 32] }, 0, 63)),
    ] {
        for sender in [0u64, 3, u64::MAX] {
            match from_mirror::<MRequest, RepairRequest>(&MRequest { sender, req: req.clone() }) {
                Ok(r) => exercise(&cx, &format!("repair-request/{name}/sender{sender}"), &r, true, sender == 3),
                Err(e) => report.violation("C19:valid-encoding-rejected:repair-request", e, json!({"request": name})),
            }
        }
    }
    for l in [0usize, 1, 511, 512] {
        exercise(&cx, &format!("transaction/{l}"), &Transaction(vec![0xab; l]), true, l == 1);
    }

    // ---- out-of-range indices and bitmask bounds must be rejected
    let strict = |name: &str, ok: bool| {
        cx.evals.fetch_add(1, Ordering::Relaxed);
        cx.nontrivial.fetch_add(1, Ordering::Relaxed);
        if ok {
            report.violation(format!("C19:out-of-range-accepted:{name}"), format!("{name} decodes"), json!({"case": name}));
        }
    };
    for v in [1024u64, 1025, u64::MAX] {
        strict("slice-index", SliceIndex::dec(&v.to_le_bytes()).is_ok());
        strict("slice-index-in-request", from_mirror::<MRequest, RepairRequest>(&MRequest { sender: 0, req: MReqType::SliceRoot(MBlockId { slot: 1, hash: [0; 32] }, v) }).is_ok());
    }
    for v in [64u64, 65, u64::MAX] {
        strict("shred-index", ShredIndex::dec(&v.to_le_bytes()).is_ok());
    }
    for v in [0u64, 1023] {
        if SliceIndex::dec(&v.to_le_bytes()).is_err() {
            report.violation("C19:valid-encoding-rejected:slice-index", format!("{v}"), json!({}));
        }
    }
    // The bitmask-bounds cases are crafted through the wire mirror. If the mirror no longer matches
    // the real layout this part cannot run: that is a machinery failure - unless the mirror-free
    // oracles above have already found violations, which are then reported as the verdict.
    let base: MMsg = match try_to_mirror(&ConsensusMessage::Cert(Cert::Final(FinalCert::new(&[FinalVote::new(Slot::new(1), sk, vi(0))], e.info.validators())))) {
        Ok(b) => b,
        Err(err) => {
            if report.violation_count() == 0 {
                crate::common::machinery_failure(&format!("wire mirror does not decode real bytes: {err}"));
            }
            println!("  note: the wire mirror does not match the certificate layout any more ({err}); bitmask-bounds cases skipped, violations found by the mirror-free oracles are reported");
            MMsg::Vote(MVote::Skip(MSlotVote { slot: 0, sig: [0; 96], signer: 0 }))
        }
    };
    if let MMsg::Cert(MCert::Final(c)) = &base {
        for (name, nb, words) in [
            ("2049-bits", 2049u64, 33usize),
            ("33-words", 2048, 33),
            ("bits-beyond-words", 65, 1),
            ("max-bits-one-word", u64::MAX, 1),
            ("4096-bits", 4096, 64),
        ] {
            let mut c2 = c.clone();
            c2.agg.num_bits = nb;
            c2.agg.words = vec![1; words];
            strict(&format!("bitmask-{name}"), from_mirror::<MMsg, ConsensusMessage>(&MMsg::Cert(MCert::Final(c2))).is_ok());
        }
        let mut c2 = c.clone();
        c2.agg.num_bits = 2048;
        c2.agg.words = vec![u64::MAX; 32];
        if from_mirror::<MMsg, ConsensusMessage>(&MMsg::Cert(MCert::Final(c2))).is_err() {
            report.violation("C19:valid-encoding-rejected:bitmask-2048", "2048-bit bitmask rejected".to_string(), json!({}));
        }
    }

    // ---- the transport's own decoder (real UDP sockets on loopback)
    let mut udp_cases = 0;
    if crate::common::replay_req().is_none() {
        let rt = tokio::runtime::Builder::new_multi_thread().worker_threads(2).enable_all().build().unwrap();
        let vote = |s: u64| ConsensusMessage::Vote(Vote::new_skip(Slot::new(s), sk, vi(1)));
        udp_cases += udp_probe(&rt, &report, "vote", &vote(3), &vote(4));
        let fc = |s: u64| ConsensusMessage::Cert(Cert::Final(FinalCert::new(&[FinalVote::new(Slot::new(s), sk, vi(0))], e.info.validators())));
        udp_cases += udp_probe(&rt, &report, "certificate", &fc(3), &fc(4));
        udp_cases += udp_probe(&rt, &report, "transaction", &Transaction(vec![1, 2, 3]), &Transaction(vec![9; 5]));
        let mut sh = RegularShredder::default();
        let sl_a = mk_slice(5, 0, true, false, 40);
        let sl_b = mk_slice(6, 0, true, false, 40);
        if let (Ok(a), Ok(b)) = (sh.shred(&sl_a, &lsk), sh.shred(&sl_b, &lsk)) {
            udp_cases += udp_probe(&rt, &report, "shred", a[0].as_shred(), b[0].as_shred());
            let rq = |slot: u64| RepairRequestType::Shred((Slot::new(slot), bh("blk")), slice_index(0), ShredIndex::new(0).unwrap());
            udp_cases += udp_probe(&rt, &report, "repair-response", &RepairResponse::Shred(rq(5), a[0].as_shred().clone()), &RepairResponse::Nack(rq(6)));
        }
        let req = |sender: u64| from_mirror::<MRequest, RepairRequest>(&MRequest { sender, req: MReqType::LastSliceRoot(MBlockId { slot: 77, hash: [3; 32] }) });
        if let (Ok(a), Ok(b)) = (req(1), req(2)) {
            udp_cases += udp_probe(&rt, &report, "repair-request", &a, &b);
        }
        cx.evals.fetch_add(udp_cases, Ordering::Relaxed);
        cx.nontrivial.fetch_add(udp_cases, Ordering::Relaxed);
        println!("  udp transport exactness: {udp_cases} datagrams");
    }

    // ---- arbitrary short byte strings
    short_strings::<ConsensusMessage>(&cx, "consensus-message");
    short_strings::<Shred>(&cx, "shred");
    short_strings::<RepairRequest>(&cx, "repair-request");
    short_strings::<RepairResponse>(&cx, "repair-response");
    short_strings::<Transaction>(&cx, "transaction");

    let (maxlen, maxname) = cx.max_len.lock().unwrap().clone();
    let cov = json!({
        "evaluations": cx.evals.load(Ordering::Relaxed),
        "distinct_nontrivial": cx.nontrivial.load(Ordering::Relaxed),
        "rule": "every vote kind x boundary slots/hashes/signers; every certificate type for every validator count 1..=2048 with signer sets {first, last, every 64-bit word boundary, all (n<=70, multiples of 257, 2048)}; shreds and shred-carrying repair responses for the listed payload sizes at indices 0/31/32/63; all repair request/response variants (proof lengths for 1..1024 slices); transactions: encode->decode->encode must be the identity, one trailing byte must be rejected, out-of-range slice/shred indices and over-long bitmasks must be rejected; for a subset of base messages of every type the whole neighbourhood (each byte := 00/01/7f/80/ff, every truncation, one-byte extension) and all byte strings of length <= 2 must never panic and decode(x) must re-encode to a fixed point; every emitted message must fit 1500 bytes; non-trivial = every non-identity input (mutated, truncated, extended, out-of-range, short string)",
        "exhaustive": true,
        "max_encoded_len": maxlen,
        "max_encoded_message": maxname,
        "mutants_that_decoded": cx.decoded_mutants.load(Ordering::Relaxed),
        "samples": cx.samples.into_inner().unwrap().items,
    });
    report.finish(cov)
}
