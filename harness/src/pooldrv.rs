//! Driver for one real `PoolImpl` plus the reference models A.1-A.3 of DESIGN.md
//! (vote admission, certificate thresholds, fallback signals).

use std::collections::{BTreeMap, BTreeSet, HashMap};
use std::hash::{Hash, Hasher};
use std::sync::Arc;

use alpenglow::consensus::verif::{VerifFinalization, verif_take_finalization_log};
use alpenglow::consensus::{
    AddVoteError, Cert, FastFinalCert, FinalCert, FinalVote, NotarCert, NotarFallbackCert,
    NotarFallbackVote, NotarVote, Pool, PoolEvent, PoolImpl, SkipCert, SkipFallbackVote, SkipVote,
    ValidatedCert, ValidatedVote, Vote,
};
use alpenglow::crypto::merkle::{BlockHash, GENESIS_BLOCK_HASH};
use alpenglow::types::Slot;
use alpenglow::BlockId;
use tokio::sync::mpsc;

use crate::common::{Epoch, bh, new_hasher, poll_once, vi};

#[derive(Clone, Copy, Debug, PartialEq, Eq, Hash, PartialOrd, Ord)]
pub enum VK {
    Notar,
    NotarFb,
    Skip,
    SkipFb,
    Final,
}

#[derive(Clone, Copy, Debug, PartialEq, Eq, Hash, PartialOrd, Ord)]
pub enum CK {
    Notar,
    NotarFb,
    Skip,
    FastFinal,
    Final,
}

/// A block of the alphabet: `idx` distinguishes competing blocks of a slot.
#[derive(Clone, Copy, Debug, PartialEq, Eq, Hash, PartialOrd, Ord)]
pub struct Blk {
    pub slot: u64,
    pub idx: u8,
}

pub const GENESIS: Blk = Blk { slot: 0, idx: 0 };

pub fn blk_hash(b: Blk) -> BlockHash {
    if b.slot == 0 {
        GENESIS_BLOCK_HASH
    } else {
        bh(&format!("blk-{}-{}", b.slot, b.idx))
    }
}

pub fn blk_id(b: Blk) -> BlockId {
    (Slot::new(b.slot), blk_hash(b))
}

#[derive(Clone, Copy, Debug, PartialEq, Eq, Hash, PartialOrd, Ord)]
pub struct VoteSpec {
    pub kind: VK,
    pub slot: u64,
    pub blk: u8,
    pub signer: usize,
}

impl VoteSpec {
    pub fn has_block(&self) -> bool {
        matches!(self.kind, VK::Notar | VK::NotarFb)
    }
    pub fn show(&self) -> String {
        if self.has_block() {
            format!("{:?}(s{},b{}) by v{}", self.kind, self.slot, self.blk, self.signer)
        } else {
            format!("{:?}(s{}) by v{}", self.kind, self.slot, self.signer)
        }
    }
}

/// Certificate described by type, slot, block and signer bitmasks
/// (`s1` primary half: notar / skip / final votes; `s2` fallback half).
#[derive(Clone, Copy, Debug, PartialEq, Eq, Hash, PartialOrd, Ord)]
pub struct CertSpec {
    pub kind: CK,
    pub slot: u64,
    pub blk: u8,
    pub s1: u32,
    pub s2: u32,
}

impl CertSpec {
    pub fn show(&self) -> String {
        format!(
            "{:?}Cert(s{},b{},signers={:#b}/{:#b})",
            self.kind, self.slot, self.blk, self.s1, self.s2
        )
    }
    pub fn has_block(&self) -> bool {
        matches!(self.kind, CK::Notar | CK::NotarFb | CK::FastFinal)
    }
}

#[derive(Clone, Debug, PartialEq, Eq, Hash)]
pub enum Op {
    Vote(VoteSpec),
    Cert(CertSpec),
    Block { blk: Blk, parent: Blk },
    Standstill,
    Wait(u64),
    /// a waiter is registered and its receiving end dropped at once (the caller gave up waiting)
    WaitAbandoned(u64),
}

impl Op {
    pub fn show(&self) -> String {
        match self {
            Op::Vote(v) => format!("vote {}", v.show()),
            Op::Cert(c) => format!("cert {}", c.show()),
            Op::Block { blk, parent } => format!(
                "add_block(s{},b{} <- parent s{},b{})",
                blk.slot, blk.idx, parent.slot, parent.idx
            ),
            Op::Standstill => "recover_from_standstill".into(),
            Op::Wait(s) => format!("wait_for_parent_ready(s{s})"),
            Op::WaitAbandoned(s) => format!("wait_for_parent_ready(s{s}), receiver dropped"),
        }
    }
}

fn bits(mask: u32) -> impl Iterator<Item = usize> {
    (0..32).filter(move |i| mask >> i & 1 == 1)
}

/// Builds and caches signed, validated messages.
pub struct Factory {
    pub epoch: Arc<Epoch>,
    votes: HashMap<VoteSpec, (Vote, ValidatedVote)>,
    certs: HashMap<CertSpec, (Cert, ValidatedCert)>,
}

impl Factory {
    pub fn new(epoch: Arc<Epoch>) -> Self {
        Self {
            epoch,
            votes: HashMap::new(),
            certs: HashMap::new(),
        }
    }

    pub fn raw_vote(&self, v: &VoteSpec) -> Vote {
        let slot = Slot::new(v.slot);
        let sk = &self.epoch.sks[v.signer];
        let hash = blk_hash(Blk {
            slot: v.slot,
            idx: v.blk,
        });
        match v.kind {
            VK::Notar => Vote::new_notar(slot, hash, sk, vi(v.signer)),
            VK::NotarFb => Vote::new_notar_fallback(slot, hash, sk, vi(v.signer)),
            VK::Skip => Vote::new_skip(slot, sk, vi(v.signer)),
            VK::SkipFb => Vote::new_skip_fallback(slot, sk, vi(v.signer)),
            VK::Final => Vote::new_final(slot, sk, vi(v.signer)),
        }
    }

    pub fn prepare_vote(&mut self, v: &VoteSpec) {
        if self.votes.contains_key(v) {
            return;
        }
        let raw = self.raw_vote(v);
        let val = ValidatedVote::try_new(raw.clone(), &self.epoch.info)
            .unwrap_or_else(|e| crate::common::machinery_failure(&format!("own vote invalid: {e}")));
        self.votes.insert(*v, (raw, val));
    }

    /// Builds the certificate through the crate's own constructors.
    pub fn raw_cert(&self, c: &CertSpec) -> Cert {
        let slot = Slot::new(c.slot);
        let hash = blk_hash(Blk {
            slot: c.slot,
            idx: c.blk,
        });
        let vals = self.epoch.info.validators();
        let sks = &self.epoch.sks;
        match c.kind {
            CK::Notar => {
                let votes: Vec<_> = bits(c.s1)
                    .map(|i| NotarVote::new(slot, hash.clone(), &sks[i], vi(i)))
                    .collect();
                Cert::Notar(NotarCert::new(&votes, vals))
            }
            CK::FastFinal => {
                let votes: Vec<_> = bits(c.s1)
                    .map(|i| NotarVote::new(slot, hash.clone(), &sks[i], vi(i)))
                    .collect();
                Cert::FastFinal(FastFinalCert::new(&votes, vals))
            }
            CK::NotarFb => {
                let v1: Vec<_> = bits(c.s1)
                    .map(|i| NotarVote::new(slot, hash.clone(), &sks[i], vi(i)))
                    .collect();
                let v2: Vec<_> = bits(c.s2)
                    .map(|i| NotarFallbackVote::new(slot, hash.clone(), &sks[i], vi(i)))
                    .collect();
                Cert::NotarFallback(NotarFallbackCert::new(&v1, &v2, vals))
            }
            CK::Skip => {
                let v1: Vec<_> = bits(c.s1).map(|i| SkipVote::new(slot, &sks[i], vi(i))).collect();
                let v2: Vec<_> = bits(c.s2)
                    .map(|i| SkipFallbackVote::new(slot, &sks[i], vi(i)))
                    .collect();
                Cert::Skip(SkipCert::new(&v1, &v2, vals))
            }
            CK::Final => {
                let votes: Vec<_> = bits(c.s1).map(|i| FinalVote::new(slot, &sks[i], vi(i))).collect();
                Cert::Final(FinalCert::new(&votes, vals))
            }
        }
    }

    pub fn prepare_cert(&mut self, c: &CertSpec) {
        if self.certs.contains_key(c) {
            return;
        }
        let raw = self.raw_cert(c);
        let val = ValidatedCert::try_new(raw.clone(), &self.epoch.info).unwrap_or_else(|e| {
            crate::common::machinery_failure(&format!("alphabet cert {} invalid: {e}", c.show()))
        });
        self.certs.insert(*c, (raw, val));
    }

    pub fn prepare(&mut self, ops: &[Op]) {
        for op in ops {
            match op {
                Op::Vote(v) => self.prepare_vote(v),
                Op::Cert(c) => self.prepare_cert(c),
                _ => {}
            }
        }
    }

    pub fn vote(&self, v: &VoteSpec) -> ValidatedVote {
        self.votes.get(v).expect("vote prepared").1.clone()
    }
    pub fn cert(&self, c: &CertSpec) -> ValidatedCert {
        self.certs.get(c).expect("cert prepared").1.clone()
    }
    pub fn cert_raw(&self, c: &CertSpec) -> &Cert {
        &self.certs.get(c).expect("cert prepared").0
    }

    /// Stake of a signer bitmask.
    pub fn stake_of(&self, mask: u32) -> u64 {
        bits(mask).map(|i| self.epoch.stakes[i]).sum()
    }
}

/// Everything one call into the pool produced.
#[derive(Default, Debug)]
pub struct Out {
    pub events: Vec<PoolEvent>,
    pub repairs: Vec<BlockId>,
    pub fins: Vec<VerifFinalization>,
}

/// A real pool with its output channels.
pub struct PoolH {
    pub pool: PoolImpl,
    ev_rx: mpsc::Receiver<PoolEvent>,
    rep_rx: mpsc::Receiver<BlockId>,
}

impl PoolH {
    pub fn new(epoch: &Epoch, own: usize) -> Self {
        let (ev_tx, ev_rx) = mpsc::channel(8192);
        let (rep_tx, rep_rx) = mpsc::channel(8192);
        let _ = verif_take_finalization_log();
        Self {
            pool: PoolImpl::new(epoch.vei(own), ev_tx, rep_tx),
            ev_rx,
            rep_rx,
        }
    }

    fn drain(&mut self) -> Out {
        let mut out = Out::default();
        while let Ok(e) = self.ev_rx.try_recv() {
            out.events.push(e);
        }
        while let Ok(r) = self.rep_rx.try_recv() {
            out.repairs.push(r);
        }
        out.fins = verif_take_finalization_log();
        out
    }

    pub fn add_vote(&mut self, v: ValidatedVote) -> (Result<(), AddVoteError>, Out) {
        // the finalization log is per thread: a call that panicked earlier on this thread (in another
        // world) may have left entries behind
        let _ = verif_take_finalization_log();
        let r = poll_once(self.pool.add_vote(v));
        (r, self.drain())
    }

    /// Returns the error as its Debug name (`AddCertError` is not exported).
    pub fn add_cert(&mut self, c: ValidatedCert) -> (Result<(), String>, Out) {
        // the finalization log is per thread: a call that panicked earlier on this thread (in another
        // world) may have left entries behind
        let _ = verif_take_finalization_log();
        let r = poll_once(self.pool.add_cert(c)).map_err(|e| format!("{e:?}"));
        (r, self.drain())
    }

    pub fn add_block(&mut self, b: BlockId, p: BlockId) -> Out {
        // the finalization log is per thread: a call that panicked earlier on this thread (in another
        // world) may have left entries behind
        let _ = verif_take_finalization_log();
        poll_once(self.pool.add_block(b, p));
        self.drain()
    }

    pub fn standstill(&mut self) -> Out {
        // the finalization log is per thread: a call that panicked earlier on this thread (in another
        // world) may have left entries behind
        let _ = verif_take_finalization_log();
        poll_once(self.pool.recover_from_standstill());
        self.drain()
    }

    pub fn digest(&self) -> u64 {
        let mut h = new_hasher();
        self.pool.verif_digest(&mut h);
        h.finish()
    }
}

// ---------------------------------------------------------------------------
// Reference model (A.1 - A.3), written from the property statements.

#[derive(Clone, Debug, Default)]
pub struct RefSlot {
    pub notar: BTreeMap<usize, u8>,
    pub nf: BTreeMap<usize, BTreeSet<u8>>,
    pub skip: BTreeSet<usize>,
    pub sf: BTreeSet<usize>,
    pub fin: BTreeSet<usize>,
    pub c_notar: Option<u8>,
    pub c_nf: BTreeSet<u8>,
    pub c_skip: bool,
    pub c_ff: Option<u8>,
    pub c_fin: bool,
    /// block idx -> parent
    pub blocks: BTreeMap<u8, Blk>,
    /// Signals the reference says must have been raised so far.
    pub s2n_due: BTreeSet<u8>,
    pub s2s_due: bool,
}

#[derive(Clone, Debug, PartialEq, Eq)]
pub enum Verdict {
    Ok,
    Duplicate,
    /// Any of the listed offences is acceptable.
    Slashable(Vec<&'static str>),
}

#[derive(Clone, Debug)]
pub struct RefPool {
    pub stakes: Vec<u64>,
    pub own: usize,
    pub slots: BTreeMap<u64, RefSlot>,
    /// First slot the real pool still retains (certificates below are no longer held).
    pub pruned_below: u64,
}

impl RefPool {
    pub fn new(stakes: &[u64], own: usize) -> Self {
        Self {
            stakes: stakes.to_vec(),
            own,
            slots: BTreeMap::new(),
            pruned_below: 0,
        }
    }

    fn total(&self) -> u128 {
        self.stakes.iter().map(|s| *s as u128).sum()
    }

    fn w<'a>(&self, set: impl Iterator<Item = &'a usize>) -> u128 {
        set.map(|i| self.stakes[*i] as u128).sum()
    }

    fn meets(&self, stake: u128, num: u128) -> bool {
        stake * 5 >= self.total() * num
    }

    pub fn slot(&self, s: u64) -> RefSlot {
        self.slots.get(&s).cloned().unwrap_or_default()
    }

    /// A.1: verdict for an incoming vote against the accepted set.
    pub fn admit(&self, v: &VoteSpec) -> Verdict {
        let st = self.slot(v.slot);
        let i = v.signer;
        let has_n = st.notar.get(&i).copied();
        let has_nf = st.nf.get(&i).cloned().unwrap_or_default();
        let has_s = st.skip.contains(&i);
        let has_sf = st.sf.contains(&i);
        let has_f = st.fin.contains(&i);
        let mut off = Vec::new();
        match v.kind {
            VK::Notar => {
                if has_s {
                    off.push("SkipAndNotarize");
                }
                if has_n.is_some_and(|x| x != v.blk) {
                    off.push("NotarDifferentHash");
                }
            }
            VK::NotarFb => {
                if has_f {
                    off.push("NotarFallbackAndFinalize");
                }
            }
            VK::Skip => {
                if has_f {
                    off.push("SkipAndFinalize");
                }
                if has_n.is_some() {
                    off.push("SkipAndNotarize");
                }
            }
            VK::SkipFb => {
                if has_f {
                    off.push("SkipAndFinalize");
                }
            }
            VK::Final => {
                if has_s || has_sf {
                    off.push("SkipAndFinalize");
                }
                if !has_nf.is_empty() {
                    off.push("NotarFallbackAndFinalize");
                }
            }
        }
        if !off.is_empty() {
            return Verdict::Slashable(off);
        }
        let dup = match v.kind {
            VK::Notar => has_n == Some(v.blk) || has_nf.contains(&v.blk),
            VK::NotarFb => has_nf.contains(&v.blk) || has_n == Some(v.blk),
            VK::Skip | VK::SkipFb => has_s || has_sf,
            VK::Final => has_f,
        };
        if dup { Verdict::Duplicate } else { Verdict::Ok }
    }

    fn notar_stake(&self, st: &RefSlot, b: u8) -> u128 {
        self.w(st.notar.iter().filter(|(_, x)| **x == b).map(|(i, _)| i))
    }

    fn nf_stake(&self, st: &RefSlot, b: u8) -> u128 {
        self.w(st.nf.iter().filter(|(_, x)| x.contains(&b)).map(|(i, _)| i))
    }

    fn all_blocks(st: &RefSlot) -> BTreeSet<u8> {
        let mut s: BTreeSet<u8> = st.notar.values().copied().collect();
        for x in st.nf.values() {
            s.extend(x.iter().copied());
        }
        s.extend(st.blocks.keys().copied());
        s
    }

    /// Records an accepted vote and updates the certificates that must now be held (A.2).
    /// Returns the certificates that newly became due: (kind, blk).
    pub fn accept_vote(&mut self, v: &VoteSpec) -> Vec<(CK, u8)> {
        let mut st = self.slot(v.slot);
        let i = v.signer;
        match v.kind {
            VK::Notar => {
                st.notar.insert(i, v.blk);
            }
            VK::NotarFb => {
                st.nf.entry(i).or_default().insert(v.blk);
            }
            VK::Skip => {
                st.skip.insert(i);
            }
            VK::SkipFb => {
                st.sf.insert(i);
            }
            VK::Final => {
                st.fin.insert(i);
            }
        }
        let mut due = Vec::new();
        for b in Self::all_blocks(&st) {
            let n = self.notar_stake(&st, b);
            let nf = self.nf_stake(&st, b);
            if self.meets(n + nf, 3) && !st.c_nf.contains(&b) {
                st.c_nf.insert(b);
                due.push((CK::NotarFb, b));
            }
            if self.meets(n, 3) && st.c_notar.is_none() {
                st.c_notar = Some(b);
                due.push((CK::Notar, b));
            }
            if self.meets(n, 4) && st.c_ff.is_none() {
                st.c_ff = Some(b);
                due.push((CK::FastFinal, b));
            }
        }
        let sk = self.w(st.skip.iter()) + self.w(st.sf.iter());
        if self.meets(sk, 3) && !st.c_skip {
            st.c_skip = true;
            due.push((CK::Skip, 0));
        }
        if self.meets(self.w(st.fin.iter()), 3) && !st.c_fin {
            st.c_fin = true;
            due.push((CK::Final, 0));
        }
        self.slots.insert(v.slot, st);
        due
    }

    /// Would the certificate be a duplicate of one already held?
    pub fn cert_held(&self, c: &CertSpec) -> bool {
        let st = self.slot(c.slot);
        match c.kind {
            CK::Notar => st.c_notar.is_some(),
            CK::NotarFb => st.c_nf.contains(&c.blk),
            CK::Skip => st.c_skip,
            CK::FastFinal => st.c_ff.is_some(),
            CK::Final => st.c_fin,
        }
    }

    pub fn accept_cert(&mut self, c: &CertSpec) {
        let mut st = self.slot(c.slot);
        match c.kind {
            CK::Notar => st.c_notar = Some(c.blk),
            CK::NotarFb => {
                st.c_nf.insert(c.blk);
            }
            CK::Skip => st.c_skip = true,
            CK::FastFinal => st.c_ff = Some(c.blk),
            CK::Final => st.c_fin = true,
        }
        self.slots.insert(c.slot, st);
    }

    pub fn add_block(&mut self, blk: Blk, parent: Blk) {
        let mut st = self.slot(blk.slot);
        st.blocks.entry(blk.idx).or_insert(parent);
        self.slots.insert(blk.slot, st);
    }

    /// Is `p` certified by a notar, notar-fallback or fast-final certificate held?
    pub fn parent_certified(&self, p: Blk) -> bool {
        // genesis is certified by definition (ParentReadyTracker starts from the same premise)
        if p.slot == 0 {
            return p.idx == 0;
        }
        // NOTE: pruning of decided slots is internal to the pool; a certificate the node received
        // for the parent keeps certifying it (pruned_below is deliberately not consulted)
        let st = self.slot(p.slot);
        st.c_notar == Some(p.idx) || st.c_nf.contains(&p.idx) || st.c_ff == Some(p.idx)
    }

    /// Would the slot hold certificates for two different blocks that the
    /// protocol can only produce with >= 20% Byzantine stake (notar(b) with
    /// fast-final(b'))?  Such inputs legitimately trip the safety assertion.
    pub fn conflicting(&self, slot: u64) -> bool {
        let st = self.slot(slot);
        match (st.c_notar, st.c_ff) {
            (Some(a), Some(b)) => a != b,
            _ => false,
        }
    }

    /// A.3: recompute which fallback signals are due in `slot`; returns newly due ones.
    pub fn update_signals(&mut self, slot: u64) -> (Vec<u8>, bool) {
        // a decided slot below the pool's watermark is discarded state (C08): nothing is due there
        if slot < self.pruned_below {
            return (Vec::new(), false);
        }
        let mut st = self.slot(slot);
        let own = self.own;
        let own_skip = st.skip.contains(&own);
        let own_notar = st.notar.get(&own).copied();
        let sk = self.w(st.skip.iter());
        let mut new_s2n = Vec::new();
        for b in Self::all_blocks(&st) {
            if st.s2n_due.contains(&b) {
                continue;
            }
            let voted_not_b = own_skip || own_notar.is_some_and(|x| x != b);
            let n = self.notar_stake(&st, b);
            let stake_ok = self.meets(n, 2) || (self.meets(n, 1) && self.meets(sk + n, 3));
            let parent_ok = st.blocks.get(&b).is_some_and(|p| self.parent_certified(*p));
            if voted_not_b && stake_ok && parent_ok {
                st.s2n_due.insert(b);
                new_s2n.push(b);
            }
        }
        let mut new_s2s = false;
        if !st.s2s_due && own_notar.is_some() {
            let blocks: BTreeSet<u8> = st.notar.values().copied().collect();
            let sum: u128 = blocks.iter().map(|b| self.notar_stake(&st, *b)).sum();
            let max: u128 = blocks.iter().map(|b| self.notar_stake(&st, *b)).max().unwrap_or(0);
            if self.meets(sk + sum - max, 2) {
                st.s2s_due = true;
                new_s2s = true;
            }
        }
        self.slots.insert(slot, st);
        (new_s2n, new_s2s)
    }

    pub fn fingerprint(&self) -> u64 {
        let mut h = new_hasher();
        for (s, st) in &self.slots {
            s.hash(&mut h);
            st.c_notar.hash(&mut h);
            st.c_nf.hash(&mut h);
            st.c_skip.hash(&mut h);
            st.c_ff.hash(&mut h);
            st.c_fin.hash(&mut h);
            st.s2n_due.hash(&mut h);
            st.s2s_due.hash(&mut h);
        }
        h.finish()
    }
}

/// Name of the slashable offence in an `AddVoteError` (types are not exported).
pub fn verdict_of(r: &Result<(), AddVoteError>) -> (String, Option<String>) {
    match r {
        Ok(()) => ("Ok".into(), None),
        Err(AddVoteError::Duplicate) => ("Duplicate".into(), None),
        Err(AddVoteError::SlotOutOfBounds) => ("SlotOutOfBounds".into(), None),
        Err(AddVoteError::Slashable(o)) => {
            let s = format!("{o:?}");
            let name = s.split('(').next().unwrap_or("").to_string();
            ("Slashable".into(), Some(name))
        }
        // tolerate variants added by the code under test
        #[allow(unreachable_patterns)]
        Err(other) => (format!("{other:?}"), None),
    }
}

/// Kind / slot / block idx of a real certificate relative to the alphabet.
pub fn cert_kind(c: &Cert) -> CK {
    match c {
        Cert::Notar(_) => CK::Notar,
        Cert::NotarFallback(_) => CK::NotarFb,
        Cert::Skip(_) => CK::Skip,
        Cert::FastFinal(_) => CK::FastFinal,
        Cert::Final(_) => CK::Final,
    }
}

/// Finds the alphabet index of a block hash in `slot` (idx 0..max_idx).
pub fn blk_idx_of(slot: u64, hash: &BlockHash, max_idx: u8) -> Option<u8> {
    (0..=max_idx).find(|i| &blk_hash(Blk { slot, idx: *i }) == hash)
}
