//! C01: finalization agreement.
//!
//! Engine 1 (model checking): one correct node (real Votor + real Pool, 40.1% of stake) in a
//! world where a 19.9% Byzantine validator may sign and send anything and all other correct
//! validators are asleep (crashed until later) - a world the property explicitly admits. The
//! Byzantine stake plus the node's stake is exactly 60%, so every certificate the adversary
//! wants needs the node's real vote. In every explored state "observer" pools (correct nodes
//! that wake up and receive only certificates) are fed every certificate formable from the votes
//! actually signed; two observers finalizing conflicting blocks, or a slot both finalized and
//! skip-certified, is a real, replayable violation of agreement.

use std::collections::{BTreeMap, BTreeSet};
use std::sync::Arc;

use alpenglow::consensus::{
    Cert, ConsensusMessage, FinalCert, FinalVote, NotarCert, NotarFallbackCert, NotarFallbackVote, NotarVote, Pool,
    SkipCert, SkipFallbackVote, SkipVote, Vote,
};
use alpenglow::types::Slot;
use alpenglow::BlockId;
use serde_json::{Value, json};

use crate::common::{Epoch, Report, Tier, make_epoch, validate_cert_cached, vi};
use crate::engine::{BfsLimits, BfsStats, StepOutcome, Sys, bfs};
use crate::nodesys::{NodeAlphabet, NodeSys, NodeWorld};
use crate::pooldrv::*;
use crate::poolsys::{cert, votes};

const BYZ: usize = 0;
const NODE: usize = 1;

pub struct SafetySys {
    pub inner: NodeSys,
    pub max_slot: u64,
    pub max_blk: u8,
}

impl SafetySys {
    fn all_triples(&self) -> Vec<(CK, u64, u8)> {
        let mut v = Vec::new();
        for s in 1..=self.max_slot {
            for b in 0..=self.max_blk {
                v.push((CK::Notar, s, b));
                v.push((CK::NotarFb, s, b));
                v.push((CK::FastFinal, s, b));
            }
            v.push((CK::Skip, s, 0));
            v.push((CK::Final, s, 0));
            // adversarial shapes a correct validator must refuse: the Byzantine signer in both halves
            v.push((CK::Skip, s, 0x80));
            for b in 0..=self.max_blk {
                v.push((CK::NotarFb, s, b | 0x80));
            }
        }
        v
    }

    /// Every certificate formable from what has really been signed (see `NodeSys::forge_spec`).
    fn formable(&self, w: &NodeWorld) -> Vec<(CertSpec, Cert)> {
        self.all_triples()
            .into_iter()
            .filter_map(|t| self.inner.forge_spec(w, t))
            .map(|spec| {
                let c = self.inner.factory.raw_cert(&spec);
                (spec, c)
            })
            // whatever the real validator refuses does not exist for correct nodes
            .filter(|(_, c)| validate_cert_cached(c, &self.inner.epoch).is_some())
            .collect()
    }

    /// Cheap arithmetic pre-check: can the signed votes support conflicting decisions at all?
    fn suspicious(&self, w: &NodeWorld) -> Option<Vec<(CertSpec, Cert)>> {
        let certs = self.formable(w);
        let has = |k: CK, s: u64| certs.iter().any(|(c, _)| c.kind == k && c.slot == s);
        let fin_blocks = |s: u64| -> Vec<u8> {
            let mut v: Vec<u8> = certs.iter().filter(|(c, _)| c.slot == s && c.kind == CK::FastFinal).map(|(c, _)| c.blk).collect();
            if has(CK::Final, s) {
                v.extend(certs.iter().filter(|(c, _)| c.slot == s && c.kind == CK::Notar).map(|(c, _)| c.blk));
            }
            v.sort();
            v.dedup();
            v
        };
        let mut finals: Vec<Blk> = Vec::new();
        let mut sus = false;
        for s in 1..=self.max_slot {
            let f = fin_blocks(s);
            if !f.is_empty() && has(CK::Skip, s) {
                sus = true;
            }
            if f.len() > 1 {
                sus = true;
            }
            finals.extend(f.into_iter().map(|b| Blk { slot: s, idx: b }));
        }
        for a in &finals {
            for b in &finals {
                if a.slot < b.slot && !self.descends(w, *b, *a) {
                    sus = true;
                }
            }
        }
        if sus { Some(certs) } else { None }
    }

    fn descends(&self, w: &NodeWorld, mut child: Blk, anc: Blk) -> bool {
        loop {
            if child == anc {
                return true;
            }
            if child.slot <= anc.slot {
                return false;
            }
            let Some(p) = w.mon.blocks_known.get(&blk_id(child)) else { return false };
            let Some(idx) = blk_idx_of(p.0.inner(), &p.1, self.max_blk) else { return false };
            child = Blk { slot: p.0.inner(), idx };
        }
    }

    /// Materialises the conflict on real pools: two observers fed subsets of the formable
    /// certificates (all of them validated) plus the known block links.
    fn observers(&self, certs: &[(CertSpec, Cert)], w: &NodeWorld, out: &mut StepOutcome) {
        let e: &Epoch = &self.inner.epoch;
        let mut valid = Vec::new();
        for (_, c) in certs {
            match validate_cert_cached(c, e) {
                Some(v) => valid.push((c.clone(), v)),
                None => return, // not formable after all (cannot happen with A3)
            }
        }
        let links: Vec<(BlockId, BlockId)> = w.mon.blocks_known.iter().map(|(b, p)| (b.clone(), p.clone())).collect();
        // observer A: every finalisation-related certificate; observer B: skip certificates first, then the rest
        let run = |order: &dyn Fn(&Cert) -> u8| -> Result<(Vec<(u64, BlockId)>, BTreeSet<u64>), String> {
            crate::common::catch(std::panic::AssertUnwindSafe(|| {
                let mut p = PoolH::new(e, 2);
                let mut fins: Vec<(u64, BlockId)> = Vec::new();
                let mut sorted: Vec<&(Cert, alpenglow::consensus::ValidatedCert)> = valid.iter().collect();
                sorted.sort_by_key(|(c, _)| (order(c), c.slot().inner()));
                for (b, par) in &links {
                    if b.0 > par.0 {
                        let o = p.add_block(b.clone(), par.clone());
                        for f in o.fins {
                            fins.extend(f.finalized.iter().chain(f.implicitly_finalized.iter()).map(|b| (b.0.inner(), b.clone())));
                        }
                    }
                }
                for (_, v) in sorted {
                    let (_, o) = p.add_cert(v.clone());
                    for f in o.fins {
                        fins.extend(f.finalized.iter().chain(f.implicitly_finalized.iter()).map(|b| (b.0.inner(), b.clone())));
                    }
                }
                let skipped: BTreeSet<u64> = (1..=self.max_slot).filter(|s| p.pool.has_skip_cert(Slot::new(*s))).collect();
                (fins, skipped)
            }))
        };
        let a = run(&|c| match c { Cert::Final(_) | Cert::FastFinal(_) | Cert::Notar(_) => 0, _ => 1 });
        let b = run(&|c| match c { Cert::Skip(_) => 0, _ => 1 });
        let mut all_fin: BTreeMap<u64, BTreeSet<BlockId>> = BTreeMap::new();
        let mut all_skip: BTreeSet<u64> = BTreeSet::new();
        let mut panicked: Option<String> = None;
        for r in [a, b] {
            match r {
                Ok((fins, skipped)) => {
                    for (s, blk) in fins {
                        if s > 0 {
                            all_fin.entry(s).or_default().insert(blk);
                        }
                    }
                    all_skip.extend(skipped);
                }
                Err(msg) => panicked = Some(msg),
            }
        }
        for (s, blks) in &all_fin {
            if blks.len() > 1 {
                out.push(
                    "C01:two-blocks-finalized-in-one-slot".to_string(),
                    format!("from the votes really signed so far (Byzantine < 20%, the node's own votes, the other correct validator's persona votes) observers finalize {} different blocks in slot {s}", blks.len()),
                );
            }
            if all_skip.contains(s) {
                out.push(
                    "C01:slot-finalized-and-skip-certified".to_string(),
                    format!("slot {s} is finalized at one correct observer while a valid skip certificate for it exists at another (both built from really signed votes)"),
                );
            }
        }
        // chain consistency of everything finalized
        let fin_blocks: Vec<Blk> = all_fin.iter().flat_map(|(s, b)| b.iter().filter_map(move |id| blk_idx_of(*s, &id.1, self.max_blk).map(|i| Blk { slot: *s, idx: i }))).collect();
        for x in &fin_blocks {
            for y in &fin_blocks {
                if x.slot < y.slot && !self.descends(w, *y, *x) && w.mon.blocks_known.contains_key(&blk_id(*y)) {
                    // only a violation if the chain from y is known down to x's slot
                    let mut c = *y;
                    let mut known_down = true;
                    while c.slot > x.slot {
                        match w.mon.blocks_known.get(&blk_id(c)).and_then(|p| blk_idx_of(p.0.inner(), &p.1, self.max_blk).map(|i| Blk { slot: p.0.inner(), idx: i })) {
                            Some(p) => c = p,
                            None => { known_down = false; break; }
                        }
                    }
                    if known_down {
                        out.push(
                            "C01:finalized-blocks-not-on-one-chain".to_string(),
                            format!("observers finalize {x:?} and {y:?}, but {y:?} does not descend from {x:?}"),
                        );
                    }
                }
            }
        }
        if let Some(msg) = panicked {
            if msg.contains("consensus safety violation") && out.violations.is_empty() {
                out.push(
                    "C01:observer-detects-safety-violation".to_string(),
                    format!("a fresh pool fed only certificates built from really signed votes trips its safety assertion: {msg:.120}"),
                );
            }
        }
    }
}

impl Sys for SafetySys {
    type World = NodeWorld;
    fn init(&self) -> NodeWorld {
        self.inner.init()
    }
    fn num_actions(&self) -> usize {
        self.inner.num_actions()
    }
    fn enabled(&self, w: &NodeWorld, h: &[u16], a: u16) -> bool {
        self.inner.enabled(w, h, a)
    }
    fn step(&self, w: &mut NodeWorld, a: u16, check: bool) -> StepOutcome {
        let before = w.own_msgs.len();
        let mut out = self.inner.step(w, a, check);
        // C05's monitor is not this property's oracle
        out.violations.retain(|(k, _)| k.starts_with("C05:panic"));
        for v in out.violations.iter_mut() {
            v.0 = v.0.replace("C05:panic", "C01:node-panics");
        }
        out.fatal = !out.violations.is_empty();
        if check && w.own_msgs.len() > before && !w.out_of_scope {
            if let Some(certs) = self.suspicious(w) {
                self.observers(&certs, w, &mut out);
                if !out.violations.is_empty() {
                    out.fatal = true;
                }
            }
        }
        out
    }
    fn digest(&self, w: &NodeWorld) -> u64 {
        self.inner.digest(w)
    }
    fn describe(&self, a: u16) -> String {
        self.inner.describe(a)
    }
    fn outcome(&self, w: &NodeWorld) -> u64 {
        self.inner.outcome(w)
    }
}

const N: VK = VK::Notar;
const NF: VK = VK::NotarFb;
const S: VK = VK::Skip;
const SF: VK = VK::SkipFb;
const F: VK = VK::Final;

fn b(slot: u64, idx: u8) -> Blk {
    Blk { slot, idx }
}

fn cat(parts: Vec<Vec<Op>>) -> Vec<Op> {
    parts.into_iter().flatten().collect()
}

const V2: usize = 2;

/// Everything the Byzantine validator can send for `slots`, the persona votes of the other
/// correct validator, and the certificates the adversary may aggregate at any time.
fn world_alphabet(slots: &[u64], blocks: Vec<(Blk, Blk)>, windows: Vec<u64>, with_invalid: bool, persona: &[VoteSpec]) -> NodeAlphabet {
    let mut foreign = Vec::new();
    let mut forge = Vec::new();
    for s in slots {
        foreign.extend(cat(vec![
            votes(N, *s, 0, &[BYZ]),
            votes(N, *s, 1, &[BYZ]),
            votes(S, *s, 0, &[BYZ]),
            votes(F, *s, 0, &[BYZ]),
        ]));
        for blk in 0..2u8 {
            forge.push((CK::Notar, *s, blk));
            forge.push((CK::NotarFb, *s, blk));
            forge.push((CK::FastFinal, *s, blk));
        }
        forge.push((CK::Skip, *s, 0));
        forge.push((CK::Final, *s, 0));
    }
    for p in persona {
        foreign.push(Op::Vote(*p));
    }
    NodeAlphabet { foreign, blocks, invalid: if with_invalid { slots.to_vec() } else { vec![] }, first_shreds: vec![], windows, forge }
}

fn persona(name: &str, slots: &[u64]) -> Vec<VoteSpec> {
    let v = |kind: VK, slot: u64, blk: u8| VoteSpec { kind, slot, blk, signer: V2 };
    match name {
        // the other correct validator never got a block and timed out
        "timed-out" => slots.iter().map(|s| v(S, *s, 0)).collect(),
        // it received the leader's block a (b) first and notarized it
        "saw-a" => vec![v(N, slots[0], 0)],
        "saw-b" => vec![v(N, slots[0], 1)],
        _ => vec![],
    }
}

pub fn run(tier: Tier) -> i32 {
    let report = Report::new("C01", tier, "model_checking");
    let a3 = Arc::new(make_epoch(&[199, 401, 400]));
    let mk = |name: &str, slots: &[u64], blocks: Vec<(Blk, Blk)>, windows: Vec<u64>, invalid: bool, pname: &str, lag: usize| {
        let per = persona(pname, slots);
        let alpha = world_alphabet(slots, blocks, windows, invalid, &per);
        let mut inner = NodeSys::new(&format!("{name}/other-correct-validator-{pname}"), a3.clone(), NODE, alpha, lag);
        inner.honest_guard = true;
        inner.byz = Some(BYZ);
        inner.persona = per;
        SafetySys { inner, max_slot: *slots.iter().max().unwrap(), max_blk: 1 }
    };
    let slot1_blocks = vec![(b(1, 0), GENESIS), (b(1, 1), GENESIS)];
    let mut systems = Vec::new();
    for pname in ["asleep", "timed-out", "saw-a", "saw-b"] {
        systems.push(mk("A3-slot1-equivocating-leader", &[1], slot1_blocks.clone(), vec![0], true, pname, 0));
    }
    for pname in ["timed-out", "saw-a"] {
        systems.push(mk(
            "A3-slots1-2",
            &[1, 2],
            vec![(b(1, 0), GENESIS), (b(1, 1), GENESIS), (b(2, 0), b(1, 0)), (b(2, 1), b(1, 1))],
            vec![0],
            false,
            pname,
            0,
        ));
    }
    systems.push(mk("A3-window-boundary", &[3, 4], vec![(b(3, 0), GENESIS), (b(4, 0), b(3, 0)), (b(4, 1), GENESIS)], vec![0, 4], false, "timed-out", 0));
    if tier == Tier::Thorough {
        for pname in ["timed-out", "saw-b"] {
            systems.push(mk("A3-slot1-equivocating-leader-lag2", &[1], slot1_blocks.clone(), vec![0], true, pname, 2));
        }
        systems.push(mk("A3-window-boundary", &[3, 4], vec![(b(3, 0), GENESIS), (b(4, 0), b(3, 0)), (b(4, 1), GENESIS)], vec![0, 4], false, "saw-a", 0));
    }
    let depth = tier.pick(5, 10);
    let mut total = BfsStats::default();
    let mut per: Vec<Value> = Vec::new();
    let mut samples: Vec<Value> = Vec::new();
    for sys in &systems {
        let limits = BfsLimits::new(depth, tier.pick(400_000, 30_000_000), tier.pick(8, (900 / systems.len().max(1) as u64).max(60)));
        let st = bfs(sys, &sys.inner.name, &limits, &report);
        println!(
            "  {}: states={} transitions={} depth_completed={} (reached {}) outcomes={} capped={:?}",
            sys.inner.name, st.states, st.transitions, st.depth_completed, st.max_depth_reached, st.distinct_outcomes, st.capped
        );
        st.merge_into(&mut total);
        let mut j = st.to_json();
        j["system"] = json!(sys.inner.name);
        j["foreign_alphabet"] = json!(sys.inner.alpha.foreign.iter().map(|o| o.show()).collect::<Vec<_>>());
        j["forgeable"] = json!(sys.inner.alpha.forge.iter().map(|t| format!("{:?}(s{},b{})", t.0, t.1, t.2)).collect::<Vec<_>>());
        per.push(j);
        samples.extend(st.samples.into_iter().take(1));
    }
    // ---- two (three) real correct nodes reacting to each other
    use crate::cluster::{ClusterAlphabet, ClusterSys};
    let byz_votes = |slots: &[u64]| -> Vec<VoteSpec> {
        slots.iter().flat_map(|s| [
            VoteSpec { kind: N, slot: *s, blk: 0, signer: BYZ },
            VoteSpec { kind: N, slot: *s, blk: 1, signer: BYZ },
            VoteSpec { kind: S, slot: *s, blk: 0, signer: BYZ },
        ]).collect()
    };
    let forge_for = |slots: &[u64]| -> Vec<(CK, u64, u8)> {
        slots.iter().flat_map(|s| vec![(CK::Notar, *s, 0), (CK::Notar, *s, 1), (CK::NotarFb, *s, 0), (CK::NotarFb, *s, 1), (CK::Skip, *s, 0), (CK::Final, *s, 0), (CK::FastFinal, *s, 0)]).collect()
    };
    let k4 = Arc::new(make_epoch(&[19, 27, 27, 27]));
    let clusters = vec![
        ClusterSys::new(
            "A3-two-real-nodes-slot1",
            a3.clone(),
            vec![NODE, V2],
            BYZ,
            ClusterAlphabet { byz_votes: byz_votes(&[1]), forge: forge_for(&[1]), blocks: slot1_blocks.clone(), invalid: vec![1], windows: vec![0] },
        ),
        // total stake 12 (not a multiple of 5): 60 % of it is 7.2, so eight units are needed - two
        // quorums of seven would overlap in the Byzantine validator's two units only
        ClusterSys::new(
            "R3-two-real-nodes-total-stake-12",
            Arc::new(make_epoch(&[2, 5, 5])),
            vec![NODE, V2],
            BYZ,
            ClusterAlphabet { byz_votes: byz_votes(&[1]), forge: vec![], blocks: slot1_blocks.clone(), invalid: vec![], windows: vec![0] },
        ),
        ClusterSys::new(
            "K4-three-real-nodes-slot1",
            k4.clone(),
            vec![1, 2, 3],
            0,
            ClusterAlphabet { byz_votes: byz_votes(&[1]), forge: forge_for(&[1]), blocks: slot1_blocks.clone(), invalid: vec![], windows: vec![0] },
        ),
    ];
    // a slow correct node (10 %) timed out while the two large correct nodes (36 % each) notarized
    // block a but have not seen each other's votes yet; the Byzantine validator (18 %) has signed
    // notar(a) towards the slow node and may send notar(b) / skip-fallback to anybody: any
    // double counting of one validator's stake in the fallback conditions makes the slot both
    // fast-finalizable and skip-certifiable
    let u4 = Arc::new(make_epoch(&[18, 10, 36, 36]));
    let mut clusters = clusters;
    {
        use crate::cluster::PrefixOp;
        let mut sys = ClusterSys::new(
            "U4-slow-node-skipped-large-nodes-split-views",
            u4.clone(),
            vec![1, 2, 3],
            0,
            ClusterAlphabet {
                byz_votes: vec![
                    VoteSpec { kind: N, slot: 1, blk: 0, signer: 0 },
                    VoteSpec { kind: N, slot: 1, blk: 1, signer: 0 },
                    VoteSpec { kind: VK::SkipFb, slot: 1, blk: 0, signer: 0 },
                    VoteSpec { kind: VK::NotarFb, slot: 1, blk: 1, signer: 0 },
                ],
                forge: vec![],
                blocks: slot1_blocks.clone(),
                invalid: vec![],
                windows: vec![0],
            },
        );
        sys.prefix = vec![
            PrefixOp::BlockTo(0, vec![1, 2]),
            PrefixOp::TimersOnceAt(0, vec![0]),
            PrefixOp::TimersOnceAt(0, vec![0]),
            PrefixOp::TimersOnceAt(0, vec![0]),
            // the slow node's skip votes reach the other two, their own votes loop back, nothing else moves
            PrefixOp::DeliverFromTo(0, 1),
            PrefixOp::DeliverFromTo(0, 2),
            PrefixOp::DeliverFromTo(1, 1),
            PrefixOp::DeliverFromTo(2, 2),
            PrefixOp::ByzTo(0, vec![0]),
        ];
        sys.max_msgs = 48;
        clusters.push(sys);
    }
    if let Ok(spec) = std::env::var("C01_DEBUG") {
        // debugging aid: C01_DEBUG="<cluster index>:<a,b,c>" replays a prefix and prints what the nodes emitted
        let (si, acts) = spec.split_once(':').unwrap();
        let sys = &clusters[si.parse::<usize>().unwrap()];
        let mut w = sys.init();
        for a in acts.split(',').filter(|x| !x.is_empty()) {
            let a: u16 = a.parse().unwrap();
            let o = sys.step(&mut w, a, true);
            println!("step {} -> violations {:?}", sys.describe(a), o.violations.iter().map(|v| &v.0).collect::<Vec<_>>());
        }
        if std::env::var("C01_DEBUG_COMPLETE").is_ok() {
            let rounds = sys.fair_completion(&mut w, false);
            println!("fair completion: {rounds} rounds; finalization logs: {:?}", w.fins.iter().map(|f| f.iter().map(|x| x.finalized.iter().chain(x.implicitly_finalized.iter()).map(|b| b.0.inner()).collect::<Vec<_>>()).collect::<Vec<_>>()).collect::<Vec<_>>());
        }
        for (n, e) in w.emitted.iter().enumerate() {
            println!("node v{} emitted:", sys.nodes[n]);
            for m in e {
                println!("   {}", format!("{m:?}").chars().take(90).collect::<String>());
            }
        }
        std::process::exit(0);
    }
    // third window: slot 1 and slot 4 hold finalized blocks (4 builds on 1), slots 2-3 and 5-7 were
    // skipped; the Byzantine validator leads window 2 and may propose on ANY parent - correct nodes
    // must only accept the one parent their pools announce (the finalized block of slot 4)
    {
        use crate::cluster::PrefixOp;
        let k4b = Arc::new(make_epoch(&[27, 19, 27, 27]));
        let g = GENESIS;
        let mut sys = ClusterSys::new(
            "K4-third-window-byzantine-leader-forks-below-a-finalized-block",
            k4b,
            vec![0, 2, 3],
            1,
            ClusterAlphabet {
                byz_votes: vec![
                    VoteSpec { kind: N, slot: 8, blk: 0, signer: 1 },
                    VoteSpec { kind: N, slot: 8, blk: 1, signer: 1 },
                ],
                forge: vec![],
                blocks: vec![(b(1, 0), g), (b(4, 0), b(1, 0)), (b(8, 0), b(4, 0)), (b(8, 1), b(1, 0)), (b(8, 2), g)],
                invalid: vec![],
                windows: vec![8],
            },
        );
        sys.prefix = vec![PrefixOp::BlockToAll(0), PrefixOp::DeliverAll];
        for _ in 0..5 {
            sys.prefix.push(PrefixOp::TimersOnce(0));
            sys.prefix.push(PrefixOp::DeliverAll);
        }
        sys.prefix.extend([PrefixOp::BlockToAll(1), PrefixOp::DeliverAll]);
        for _ in 0..5 {
            sys.prefix.push(PrefixOp::TimersOnce(4));
            sys.prefix.push(PrefixOp::DeliverAll);
        }
        sys.max_msgs = 96;
        clusters.push(sys);
    }
    let cdepth = tier.pick(4, 8);
    for inner in clusters {
        // every transition is judged as before; in addition every new state is completed fairly
        // (two orders) and the completed world is judged for agreement
        // per-transition judgement to the full cluster depth first (cheap) ...
        // the third-window system replays a long start-state prefix for every expansion: one level less
        let plain_depth = if inner.name.contains("third-window") { cdepth - 1 } else if inner.name.starts_with("R3-") { cdepth + 1 } else { cdepth };
        let limits = BfsLimits::new(plain_depth, tier.pick(400_000, 30_000_000), tier.pick(10, 150));
        let plain = bfs(&inner, &inner.name, &limits, &report);
        println!("  {}: states={} transitions={} depth_completed={} capped={:?} (per-transition oracle only)", inner.name, plain.states, plain.transitions, plain.depth_completed, plain.capped);
        plain.merge_into(&mut total);
        let mut pj = plain.to_json();
        pj["system"] = json!(format!("{} (per-transition oracle)", inner.name));
        per.push(pj);
        // ... then with fair completion of every state, one level shallower
        let mut live = crate::cluster::LiveSys::new(inner);
        live.safety = true;
        // the two-node system is small enough for fair completion at the full depth
        let live_depth = if live.inner.name.starts_with("R3-") { cdepth + 1 } else { cdepth - 1 };
        let limits = BfsLimits::new(live_depth, tier.pick(400_000, 30_000_000), tier.pick(30, 150));
        let st = bfs(&live, &live.inner.name, &limits, &report);
        let sys = &live.inner;
        println!(
            "  {}: states={} transitions={} depth_completed={} (reached {}) outcomes={} fair completions={} end shapes={:?} capped={:?}",
            sys.name, st.states, st.transitions, st.depth_completed, st.max_depth_reached, st.distinct_outcomes,
            live.completions.load(std::sync::atomic::Ordering::Relaxed), live.shapes.lock().unwrap(), st.capped
        );
        st.merge_into(&mut total);
        let mut j = st.to_json();
        j["system"] = json!(sys.name);
        j["real_nodes"] = json!(sys.nodes);
        j["stakes"] = json!(sys.epoch.stakes);
        j["fair_completions_judged"] = json!(live.completions.load(std::sync::atomic::Ordering::Relaxed));
        j["completed_world_shapes"] = json!(live.shapes.lock().unwrap().iter().cloned().collect::<Vec<_>>());
        per.push(j);
        samples.extend(st.samples.into_iter().take(1));
    }
    // ---- one real pool, equivocated sibling chains, every delivery order: the finalized set is a
    // function of the held certificates and blocks (so nodes holding the same inputs agree)
    let order_cov = crate::c07_c08_c18::run_scens(&report, "C01", crate::c07_c08_c18::sibling_scens(tier), tier.pick(400_000, 4_000_000), tier.pick(20, 120), tier.pick(240, 1500));
    let cov = json!({
        "order_independence_of_finalization": order_cov,
        "states": total.states,
        "transitions": total.transitions,
        "traces_validated_against_impl": total.transitions,
        "replayed_impl_steps": total.replayed_steps,
        "distinct_outcomes": total.distinct_outcomes,
        "exhaustive": false,
        "depth_bound": depth,
        "cluster_depth_bound": cdepth,
        "capped": total.capped,
        "bound": "stakes [199 Byzantine, 401 correct node under test (real Votor + Pool), 400 other correct validator with a fixed legitimate persona: asleep / timed out / notarized block a / notarized block b]; all event sequences up to the depth bound over: every vote the Byzantine validator can sign, the persona's votes, every certificate the adversary can aggregate at that moment from really signed votes, two blocks per slot, InvalidBlock, timeouts, loop-back of own broadcasts; in every state in which the signed votes could support conflicting decisions, observers (fresh real pools) are fed all formable certificates in two orders",
        "families": per,
        "samples": samples,
    });
    report.finish(cov)
}
