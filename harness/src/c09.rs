//! C09: only authentic votes and sufficiently backed certificates are admitted (E3).

use std::collections::BTreeSet;
use std::sync::Mutex;
use std::sync::atomic::{AtomicUsize, Ordering};

use alpenglow::consensus::{
    Cert, ConsensusMessage, FastFinalCert, FinalCert, FinalVote, NotarCert, NotarFallbackCert, NotarFallbackVote,
    NotarVote, SkipCert, SkipFallbackVote, SkipVote, ValidatedCert, ValidatedVote, Vote,
};
use alpenglow::crypto::merkle::BlockHash;
use alpenglow::types::Slot;
use rayon::prelude::*;
use serde_json::json;

use crate::common::{Epoch, Report, Samples, Tier, catch, make_epoch, vi};
use crate::wire::*;

fn hash_of(b: &H32) -> BlockHash {
    wincode::deserialize::<BlockHash>(b).expect("hash")
}

fn honest_vote(e: &Epoch, kind: u32, slot: u64, hash: &H32, signer: usize) -> Vote {
    let s = Slot::new(slot);
    let sk = &e.sks[signer];
    match kind {
        0 => Vote::new_notar(s, hash_of(hash), sk, vi(signer)),
        1 => Vote::new_notar_fallback(s, hash_of(hash), sk, vi(signer)),
        2 => Vote::new_skip(s, sk, vi(signer)),
        3 => Vote::new_skip_fallback(s, sk, vi(signer)),
        _ => Vote::new_final(s, sk, vi(signer)),
    }
}

fn mvote_fields(m: &MVote) -> (u32, u64, Option<H32>, [u8; 96], u64) {
    match m {
        MVote::Notar(v) => (0, v.slot, Some(v.hash), v.sig, v.signer),
        MVote::NotarFallback(v) => (1, v.slot, Some(v.hash), v.sig, v.signer),
        MVote::Skip(v) => (2, v.slot, None, v.sig, v.signer),
        MVote::SkipFallback(v) => (3, v.slot, None, v.sig, v.signer),
        MVote::Final(v) => (4, v.slot, None, v.sig, v.signer),
    }
}

fn mk_mvote(kind: u32, slot: u64, hash: H32, sig: [u8; 96], signer: u64) -> MVote {
    match kind {
        0 => MVote::Notar(MBlockVote { slot, hash, sig, signer }),
        1 => MVote::NotarFallback(MBlockVote { slot, hash, sig, signer }),
        2 => MVote::Skip(MSlotVote { slot, sig, signer }),
        3 => MVote::SkipFallback(MSlotVote { slot, sig, signer }),
        _ => MVote::Final(MSlotVote { slot, sig, signer }),
    }
}

const HA: H32 = [0xa1; 32];
const HB: H32 = [0xb2; 32];

struct Ctx<'a> {
    report: &'a Report,
    evals: AtomicUsize,
    nontrivial: AtomicUsize,
    accepted: AtomicUsize,
    rejected_decode: AtomicUsize,
    samples: Mutex<Samples>,
}

/// Feeds one (possibly mutated) vote through decode + validation and judges the verdict.
fn judge_vote(cx: &Ctx, e: &Epoch, m: &MVote, class: &str, base: &str) {
    cx.evals.fetch_add(1, Ordering::Relaxed);
    if class != "genuine" {
        cx.nontrivial.fetch_add(1, Ordering::Relaxed);
    }
    let (kind, slot, hash, sig, signer) = mvote_fields(m);
    let replay = json!({"stakes": e.stakes, "base": base, "mutation": class, "kind": kind, "slot": slot, "signer": signer});
    cx.samples.lock().unwrap().push(|| replay.clone());
    let r = catch(|| match from_mirror::<MMsg, ConsensusMessage>(&MMsg::Vote(m.clone())) {
        Err(_) => None,
        Ok(ConsensusMessage::Vote(v)) => Some(ValidatedVote::try_new(v, &e.info).is_ok()),
        Ok(_) => Some(false),
    });
    let accepted = match r {
        Err(msg) => {
            cx.report.violation(format!("C09:vote-panic:{class}"), format!("validation panicked: {msg}"), replay);
            return;
        }
        Ok(None) => {
            cx.rejected_decode.fetch_add(1, Ordering::Relaxed);
            false
        }
        Ok(Some(a)) => a,
    };
    // authentic iff signer in range and signature equals the (unique, deterministic) honest one
    let authentic = (signer as usize) < e.n() && {
        let h = honest_vote(e, kind, slot, &hash.unwrap_or(HA), signer as usize);
        let hm: MVote = to_mirror(&h);
        mvote_fields(&hm).3 == sig
    };
    if accepted {
        cx.accepted.fetch_add(1, Ordering::Relaxed);
    }
    if accepted && !authentic {
        cx.report.violation(
            format!("C09:forged-vote-admitted:{class}"),
            format!("vote mutated by '{class}' (from {base}) was admitted: kind {kind} slot {slot} signer {signer}"),
            replay,
        );
    } else if !accepted && authentic {
        cx.report.violation(
            format!("C09:authentic-vote-rejected:{class}"),
            format!("authentic vote (kind {kind} slot {slot} signer {signer}, via '{class}') was rejected"),
            replay,
        );
    }
}

fn vote_sweep(cx: &Ctx, e: &Epoch) {
    let n = e.n();
    for kind in 0..5u32 {
        for signer in 0..n {
            let v = honest_vote(e, kind, 5, &HA, signer);
            let base: MVote = to_mirror(&v);
            let (_, slot, _, sig, sg) = mvote_fields(&base);
            let bname = format!("kind{kind}/signer{signer}");
            judge_vote(cx, e, &base, "genuine", &bname);
            // re-tag to every other kind
            for k2 in 0..5u32 {
                if k2 != kind {
                    judge_vote(cx, e, &mk_mvote(k2, slot, HA, sig, sg), "kind-retag", &bname);
                }
            }
            for s2 in [slot + 1, slot - 1, 0, u64::MAX] {
                judge_vote(cx, e, &mk_mvote(kind, s2, HA, sig, sg), "slot-changed", &bname);
            }
            if kind < 2 {
                judge_vote(cx, e, &mk_mvote(kind, slot, HB, sig, sg), "hash-changed", &bname);
            }
            let mut signers: Vec<u64> = (0..n as u64).filter(|x| *x != sg).collect();
            signers.extend([n as u64, n as u64 + 1, u64::MAX, 1 << 32]);
            for s2 in signers {
                judge_vote(cx, e, &mk_mvote(kind, slot, HA, sig, s2), "signer-changed", &bname);
            }
            // signature transplanted from the same validator's other votes
            for k2 in 0..5u32 {
                for (sl, hh) in [(slot, HA), (slot + 1, HA), (slot, HB)] {
                    if (k2, sl, hh) == (kind, slot, HA) || (k2 >= 2 && hh == HB) || (kind >= 2 && k2 == kind && sl == slot) {
                        continue;
                    }
                    let other: MVote = to_mirror(&honest_vote(e, k2, sl, &hh, signer));
                    judge_vote(cx, e, &mk_mvote(kind, slot, HA, mvote_fields(&other).3, sg), "signature-from-own-other-vote", &bname);
                }
            }
            // another validator's signature on the same payload
            for o in 0..n {
                if o != signer {
                    let other: MVote = to_mirror(&honest_vote(e, kind, slot, &HA, o));
                    judge_vote(cx, e, &mk_mvote(kind, slot, HA, mvote_fields(&other).3, sg), "signature-of-other-validator", &bname);
                }
            }
            // byte corruption classes
            for (byte, mask) in [(0usize, 0x01u8), (0, 0x80), (47, 0x10), (48, 0x01), (95, 0x01), (95, 0x80)] {
                let mut s2 = sig;
                s2[byte] ^= mask;
                judge_vote(cx, e, &mk_mvote(kind, slot, HA, s2, sg), "signature-byte-flipped", &bname);
            }
            if let Some(shifted) = plus_point_outside_subgroup(&sig) {
                judge_vote(cx, e, &mk_mvote(kind, slot, HA, shifted, sg), "signature-plus-point-outside-subgroup", &bname);
            }
            judge_vote(cx, e, &mk_mvote(kind, slot, HA, [0; 96], sg), "signature-zeroed", &bname);
            judge_vote(cx, e, &mk_mvote(kind, slot, HA, [0xff; 96], sg), "signature-ones", &bname);
        }
    }
}

// ---------------------------------------------------------------------------

fn subset(mask: u32, n: usize) -> Vec<usize> {
    (0..n).filter(|i| mask >> i & 1 == 1).collect()
}

/// Honest certificate of `kind` (0 notar, 1 nf, 2 skip, 3 ff, 4 final) over signer sets.
fn honest_cert(e: &Epoch, kind: u32, slot: u64, hash: &H32, s1: &[usize], s2: &[usize]) -> Cert {
    let s = Slot::new(slot);
    let vals = e.info.validators();
    let h = hash_of(hash);
    match kind {
        0 => Cert::Notar(NotarCert::new(&s1.iter().map(|i| NotarVote::new(s, h.clone(), &e.sks[*i], vi(*i))).collect::<Vec<_>>(), vals)),
        3 => Cert::FastFinal(FastFinalCert::new(&s1.iter().map(|i| NotarVote::new(s, h.clone(), &e.sks[*i], vi(*i))).collect::<Vec<_>>(), vals)),
        4 => Cert::Final(FinalCert::new(&s1.iter().map(|i| FinalVote::new(s, &e.sks[*i], vi(*i))).collect::<Vec<_>>(), vals)),
        1 => Cert::NotarFallback(NotarFallbackCert::new(
            &s1.iter().map(|i| NotarVote::new(s, h.clone(), &e.sks[*i], vi(*i))).collect::<Vec<_>>(),
            &s2.iter().map(|i| NotarFallbackVote::new(s, h.clone(), &e.sks[*i], vi(*i))).collect::<Vec<_>>(),
            vals,
        )),
        _ => Cert::Skip(SkipCert::new(
            &s1.iter().map(|i| SkipVote::new(s, &e.sks[*i], vi(*i))).collect::<Vec<_>>(),
            &s2.iter().map(|i| SkipFallbackVote::new(s, &e.sks[*i], vi(*i))).collect::<Vec<_>>(),
            vals,
        )),
    }
}

struct CertView {
    kind: u32,
    slot: u64,
    hash: Option<H32>,
    a1: Option<MAgg>,
    a2: Option<MAgg>,
}

fn view(m: &MCert) -> CertView {
    match m {
        MCert::Notar(c) => CertView { kind: 0, slot: c.slot, hash: Some(c.hash), a1: Some(c.agg.clone()), a2: None },
        MCert::FastFinal(c) => CertView { kind: 3, slot: c.slot, hash: Some(c.hash), a1: Some(c.agg.clone()), a2: None },
        MCert::Final(c) => CertView { kind: 4, slot: c.slot, hash: None, a1: Some(c.agg.clone()), a2: None },
        MCert::NotarFallback(c) => CertView { kind: 1, slot: c.slot, hash: Some(c.hash), a1: c.a1.clone(), a2: c.a2.clone() },
        MCert::Skip(c) => CertView { kind: 2, slot: c.slot, hash: None, a1: c.a1.clone(), a2: c.a2.clone() },
    }
}

/// The unique valid aggregate for a signer set: taken from an honestly built certificate.
fn honest_half_sig(e: &Epoch, kind: u32, slot: u64, hash: &H32, signers: &[usize], second_half: bool) -> Option<[u8; 96]> {
    if signers.is_empty() || signers.iter().any(|s| *s >= e.n()) {
        return None;
    }
    let c = if second_half {
        honest_cert(e, kind, slot, hash, &[], signers)
    } else {
        honest_cert(e, kind, slot, hash, signers, &[])
    };
    let m: MCert = to_mirror(&c);
    let v = view(&m);
    let a = if second_half { v.a2 } else { v.a1 };
    a.map(|a| a.sig)
}

fn judge_cert(cx: &Ctx, e: &Epoch, m: &MCert, class: &str, base: &str) {
    cx.evals.fetch_add(1, Ordering::Relaxed);
    if class != "genuine-above-threshold" {
        cx.nontrivial.fetch_add(1, Ordering::Relaxed);
    }
    let v = view(m);
    let replay = json!({
        "stakes": e.stakes, "base": base, "mutation": class, "kind": v.kind, "slot": v.slot,
        "half1": v.a1.as_ref().map(|a| (a.num_bits, a.signers())),
        "half2": v.a2.as_ref().map(|a| (a.num_bits, a.signers())),
    });
    cx.samples.lock().unwrap().push(|| replay.clone());
    let r = catch(|| match from_mirror::<MMsg, ConsensusMessage>(&MMsg::Cert(m.clone())) {
        Err(_) => None,
        Ok(ConsensusMessage::Cert(c)) => Some(ValidatedCert::try_new(c, &e.info).is_ok()),
        Ok(_) => Some(false),
    });
    let accepted = match r {
        Err(msg) => {
            cx.report.violation(format!("C09:cert-panic:{class}"), format!("validation panicked: {msg}"), replay);
            return;
        }
        Ok(None) => {
            cx.rejected_decode.fetch_add(1, Ordering::Relaxed);
            false
        }
        Ok(Some(a)) => a,
    };
    let n = e.n();
    let hash = v.hash.unwrap_or(HA);
    let mut authentic = v.a1.is_some() || v.a2.is_some();
    let mut canonical = true;
    let mut union: BTreeSet<usize> = BTreeSet::new();
    for (half, second) in [(&v.a1, false), (&v.a2, true)] {
        if let Some(a) = half {
            let signers = a.signers();
            if a.num_bits as usize != n {
                canonical = false;
            }
            match honest_half_sig(e, v.kind, v.slot, &hash, &signers, second) {
                Some(sig) if sig == a.sig => {}
                _ => authentic = false,
            }
            union.extend(signers);
        }
    }
    let stake: u64 = union.iter().filter(|i| **i < n).map(|i| e.stakes[*i]).sum();
    let need = if v.kind == 3 { 4 } else { 3 };
    let sufficient = e.meets(stake, need, 5);
    if accepted {
        cx.accepted.fetch_add(1, Ordering::Relaxed);
    }
    if accepted && !(authentic && sufficient) {
        let why = if !authentic { "not-authentic" } else { "insufficient-distinct-stake" };
        cx.report.violation(
            format!("C09:bad-cert-admitted:{why}:{class}"),
            format!(
                "certificate (kind {} slot {}) mutated by '{class}' from {base} was admitted although {why}: distinct signer stake {stake}/{} signers {union:?}",
                v.kind, v.slot, e.total()
            ),
            replay,
        );
    } else if !accepted && authentic && sufficient && canonical {
        cx.report.violation(
            format!("C09:good-cert-rejected:{class}"),
            format!("authentic certificate (kind {} slot {}) with distinct stake {stake}/{} was rejected ('{class}')", v.kind, v.slot, e.total()),
            replay,
        );
    }
}

fn set_stake(m: &mut MCert, stake: u64) {
    match m {
        MCert::Notar(c) | MCert::FastFinal(c) => c.stake = stake,
        MCert::NotarFallback(c) => c.stake = stake,
        MCert::Skip(c) => c.stake = stake,
        MCert::Final(c) => c.stake = stake,
    }
}

fn cert_sweep(cx: &Ctx, e: &Epoch, pairs: bool) {
    let n = e.n();
    // every signer subset of every type
    for kind in [0u32, 3, 4] {
        for mask in 1u32..(1 << n) {
            let s = subset(mask, n);
            let c = honest_cert(e, kind, 7, &HA, &s, &[]);
            let m: MCert = to_mirror(&c);
            let stake: u64 = s.iter().map(|i| e.stakes[*i]).sum();
            let class = if e.meets(stake, if kind == 3 { 4 } else { 3 }, 5) { "genuine-above-threshold" } else { "genuine-below-threshold" };
            judge_cert(cx, e, &m, class, &format!("kind{kind}/signers{s:?}"));
        }
    }
    for kind in [1u32, 2] {
        let masks: Vec<(u32, u32)> = if pairs {
            (0u32..(1 << n)).flat_map(|a| (0u32..(1 << n)).map(move |b| (a, b))).filter(|(a, b)| a | b != 0).collect()
        } else {
            // disjoint splits and single halves only
            (1u32..(1 << n)).flat_map(|u| [(u, 0), (0, u), (u & 0b0101_0101, u & 0b1010_1010)]).filter(|(a, b)| a | b != 0).collect()
        };
        for (a, b) in masks {
            let (s1, s2) = (subset(a, n), subset(b, n));
            let c = honest_cert(e, kind, 7, &HA, &s1, &s2);
            let m: MCert = to_mirror(&c);
            let union: BTreeSet<usize> = s1.iter().chain(s2.iter()).copied().collect();
            let stake: u64 = union.iter().map(|i| e.stakes[*i]).sum();
            let class = if a & b != 0 {
                "genuine-overlapping-halves"
            } else if e.meets(stake, 3, 5) {
                "genuine-above-threshold"
            } else {
                "genuine-below-threshold"
            };
            judge_cert(cx, e, &m, class, &format!("kind{kind}/halves{s1:?}+{s2:?}"));
        }
    }
    // mutations of valid certificates (minimal quorum and full set)
    let all: Vec<usize> = (0..n).collect();
    let mut minimal: Vec<usize> = Vec::new();
    for i in 0..n {
        minimal.push(i);
        let st: u64 = minimal.iter().map(|i| e.stakes[*i]).sum();
        if e.meets(st, 3, 5) {
            break;
        }
    }
    for kind in 0..5u32 {
        for (bname, s) in [("minimal-quorum", &minimal), ("all-signers", &all)] {
            let (s1, s2): (Vec<usize>, Vec<usize>) = if kind == 1 || kind == 2 {
                let h = s.len().div_ceil(2);
                (s[..h].to_vec(), s[h..].to_vec())
            } else {
                (s.to_vec(), vec![])
            };
            let st: u64 = s.iter().map(|i| e.stakes[*i]).sum();
            if !e.meets(st, if kind == 3 { 4 } else { 3 }, 5) {
                continue;
            }
            let base_cert = honest_cert(e, kind, 7, &HA, &s1, &s2);
            let base: MCert = to_mirror(&base_cert);
            let bn = format!("kind{kind}/{bname}");
            for st in [0, 1, u64::MAX, e.total() + 1] {
                let mut m = base.clone();
                set_stake(&mut m, st);
                judge_cert(cx, e, &m, "declared-stake-changed", &bn);
            }
            // slot / hash
            let mut m = base.clone();
            match &mut m {
                MCert::Notar(c) | MCert::FastFinal(c) => c.slot += 1,
                MCert::NotarFallback(c) => c.slot += 1,
                MCert::Skip(c) => c.slot += 1,
                MCert::Final(c) => c.slot += 1,
            }
            judge_cert(cx, e, &m, "slot-changed", &bn);
            let mut m = base.clone();
            match &mut m {
                MCert::Notar(c) | MCert::FastFinal(c) => c.hash = HB,
                MCert::NotarFallback(c) => c.hash = HB,
                _ => {}
            }
            judge_cert(cx, e, &m, "hash-changed", &bn);
            // type re-tags
            match &base {
                MCert::Notar(c) => {
                    judge_cert(cx, e, &MCert::FastFinal(c.clone()), "retag-notar-as-fastfinal", &bn);
                    judge_cert(cx, e, &MCert::NotarFallback(MNfCert { slot: c.slot, hash: c.hash, a1: None, a2: Some(c.agg.clone()), stake: c.stake }), "notar-sigs-moved-to-fallback-half", &bn);
                    judge_cert(cx, e, &MCert::NotarFallback(MNfCert { slot: c.slot, hash: c.hash, a1: Some(c.agg.clone()), a2: None, stake: c.stake }), "retag-notar-as-notarfallback", &bn);
                    judge_cert(cx, e, &MCert::Final(MFinalCert { slot: c.slot, agg: c.agg.clone(), stake: c.stake }), "retag-notar-as-final", &bn);
                }
                MCert::FastFinal(c) => {
                    judge_cert(cx, e, &MCert::Notar(c.clone()), "retag-fastfinal-as-notar", &bn);
                }
                MCert::Final(c) => {
                    judge_cert(cx, e, &MCert::Skip(MSkipCert { slot: c.slot, a1: Some(c.agg.clone()), a2: None, stake: c.stake }), "retag-final-as-skip", &bn);
                }
                MCert::NotarFallback(c) => {
                    let mut sw = c.clone();
                    std::mem::swap(&mut sw.a1, &mut sw.a2);
                    judge_cert(cx, e, &MCert::NotarFallback(sw), "halves-swapped", &bn);
                    if let Some(a) = &c.a1 {
                        judge_cert(cx, e, &MCert::Notar(MBlockCert { slot: c.slot, hash: c.hash, agg: a.clone(), stake: c.stake }), "retag-half-as-notar", &bn);
                    }
                    let mut dup = c.clone();
                    dup.a2 = dup.a1.clone();
                    judge_cert(cx, e, &MCert::NotarFallback(dup), "first-half-copied-into-second", &bn);
                }
                MCert::Skip(c) => {
                    let mut sw = c.clone();
                    std::mem::swap(&mut sw.a1, &mut sw.a2);
                    judge_cert(cx, e, &MCert::Skip(sw), "halves-swapped", &bn);
                    let mut dup = c.clone();
                    dup.a2 = dup.a1.clone();
                    judge_cert(cx, e, &MCert::Skip(dup), "first-half-copied-into-second", &bn);
                    if let Some(a) = &c.a1 {
                        judge_cert(cx, e, &MCert::Final(MFinalCert { slot: c.slot, agg: a.clone(), stake: c.stake }), "retag-half-as-final", &bn);
                    }
                }
            }
            // signature material moved between the two halves of a mixed certificate (bitmasks,
            // slot, hash and stake untouched): only the SUM of the two aggregates is unchanged
            match &base {
                MCert::NotarFallback(MNfCert { a1: Some(x), a2: Some(y), .. }) | MCert::Skip(MSkipCert { a1: Some(x), a2: Some(y), .. }) => {
                    let (sx, sy) = (x.sig, y.sig);
                    let with = |nx: [u8; 96], ny: [u8; 96]| -> MCert {
                        let mut m = base.clone();
                        match &mut m {
                            MCert::NotarFallback(c) => { c.a1.as_mut().unwrap().sig = nx; c.a2.as_mut().unwrap().sig = ny; }
                            MCert::Skip(c) => { c.a1.as_mut().unwrap().sig = nx; c.a2.as_mut().unwrap().sig = ny; }
                            _ => {}
                        }
                        m
                    };
                    if sx != sy {
                        judge_cert(cx, e, &with(sy, sx), "aggregate-signatures-swapped-between-halves", &bn);
                    }
                    // d = an individual honest signature; a + d, b - d
                    let dv: MVote = to_mirror(&honest_vote(e, 0, 7, &HA, s1[0]));
                    let d = mvote_fields(&dv).3;
                    if let (Some(nx), Some(ny)) = (sig_plus(&sx, &d, false), sig_plus(&sy, &d, true)) {
                        judge_cert(cx, e, &with(nx, ny), "signature-moved-between-halves", &bn);
                    }
                }
                _ => {}
            }
            // bitmask manipulations on the first present half
            let edit = |f: &dyn Fn(&mut MAgg)| -> MCert {
                let mut m = base.clone();
                match &mut m {
                    MCert::Notar(c) | MCert::FastFinal(c) => f(&mut c.agg),
                    MCert::Final(c) => f(&mut c.agg),
                    MCert::NotarFallback(c) => f(c.a1.as_mut().or(c.a2.as_mut()).unwrap()),
                    MCert::Skip(c) => f(c.a1.as_mut().or(c.a2.as_mut()).unwrap()),
                }
                m
            };
            judge_cert(cx, e, &edit(&|a| a.num_bits = a.num_bits.saturating_sub(1)), "bitmask-shorter", &bn);
            judge_cert(cx, e, &edit(&|a| a.num_bits += 1), "bitmask-longer", &bn);
            judge_cert(cx, e, &edit(&|a| { a.num_bits = 0; a.words.clear(); }), "bitmask-empty", &bn);
            judge_cert(cx, e, &edit(&|a| { a.num_bits = 0; }), "bitmask-zero-bits", &bn);
            judge_cert(cx, e, &edit(&|a| { let nb = a.num_bits as usize; if nb < 64 { a.words[0] |= 1 << nb; } }), "garbage-bit-beyond-length", &bn);
            judge_cert(cx, e, &edit(&|a| { let nb = a.num_bits as usize; a.num_bits += 3; a.words[0] |= 1 << nb; }), "out-of-range-signer-marked", &bn);
            judge_cert(cx, e, &edit(&|a| { a.num_bits = 2048; a.words = vec![u64::MAX; 32]; }), "bitmask-2048-all-set", &bn);
            judge_cert(cx, e, &edit(&|a| { a.words.push(0); }), "extra-zero-word", &bn);
            judge_cert(cx, e, &edit(&|a| { a.words[0] |= (1u64 << n) - 1; }), "all-validators-marked", &bn);
            judge_cert(cx, e, &edit(&|a| { a.words[0] &= a.words[0] - 1; }), "one-signer-unmarked", &bn);
            judge_cert(cx, e, &edit(&|a| { a.sig[95] ^= 1; }), "aggregate-byte-flipped", &bn);
            // the aggregate plus a curve point outside the signature subgroup: every pairing is
            // unchanged, only a subgroup check can tell the bytes are not the honest signature
            if let Some(shifted) = plus_point_outside_subgroup(match &base {
                MCert::Notar(c) | MCert::FastFinal(c) => &c.agg.sig,
                MCert::Final(c) => &c.agg.sig,
                MCert::NotarFallback(c) => &c.a1.as_ref().or(c.a2.as_ref()).unwrap().sig,
                MCert::Skip(c) => &c.a1.as_ref().or(c.a2.as_ref()).unwrap().sig,
            }) {
                judge_cert(cx, e, &edit(&|a| { a.sig = shifted; }), "aggregate-plus-point-outside-subgroup", &bn);
            }
            // aggregate replaced by a single signature
            let single: MVote = to_mirror(&honest_vote(e, match kind { 0 | 3 => 0, 1 => 0, 2 => 2, _ => 4 }, 7, &HA, s1[0]));
            let ssig = mvote_fields(&single).3;
            judge_cert(cx, e, &edit(&|a| { a.sig = ssig; }), "aggregate-replaced-by-single-signature", &bn);
        }
    }
}

/// `sig + T` where T is a non-zero point of the curve E1 whose order is coprime to the group order
/// (r times an on-curve point outside G1; signatures are uncompressed G1 points in the `min_sig`
/// scheme). Returns None if the input does not deserialize.
fn plus_point_outside_subgroup(sig: &[u8; 96]) -> Option<[u8; 96]> {
    use blst::*;
    use std::sync::OnceLock;
    static T: OnceLock<Option<blst_p1>> = OnceLock::new();
    let t = T.get_or_init(|| {
        // group order r
        let r_be: [u8; 32] = [
            0x73, 0xed, 0xa7, 0x53, 0x29, 0x9d, 0x7d, 0x48, 0x33, 0x39, 0xd8, 0x08, 0x09, 0xa1, 0xd8, 0x05, 0x53, 0xbd, 0xa4, 0x02, 0xff, 0xfe, 0x5b, 0xfe, 0xff, 0xff, 0xff, 0xff, 0x00, 0x00,
            0x00, 0x01,
        ];
        let mut r_le = r_be;
        r_le.reverse();
        for ctr in 1u8..=200 {
            let mut bytes = [0u8; 48];
            bytes[0] = 0x80; // compressed encoding of the point with x = ctr
            bytes[47] = ctr;
            let mut aff = blst_p1_affine::default();
            // SAFETY: plain C arithmetic on stack values of the right size
            unsafe {
                if blst_p1_uncompress(&mut aff, bytes.as_ptr()) != BLST_ERROR::BLST_SUCCESS || blst_p1_affine_in_g1(&aff) {
                    continue;
                }
                let mut p = blst_p1::default();
                blst_p1_from_affine(&mut p, &aff);
                let mut out = blst_p1::default();
                blst_p1_mult(&mut out, &p, r_le.as_ptr(), 255);
                if !blst_p1_is_inf(&out) {
                    return Some(out);
                }
            }
        }
        None
    });
    let t = (*t)?;
    // SAFETY: as above
    unsafe {
        let mut aff = blst_p1_affine::default();
        if blst_p1_deserialize(&mut aff, sig.as_ptr()) != BLST_ERROR::BLST_SUCCESS {
            return None;
        }
        let mut p = blst_p1::default();
        blst_p1_from_affine(&mut p, &aff);
        let mut sum = blst_p1::default();
        blst_p1_add_or_double(&mut sum, &p, &t);
        let mut out = [0u8; 96];
        blst_p1_serialize(out.as_mut_ptr(), &sum);
        if &out == sig { None } else { Some(out) }
    }
}

/// `a + d` / `a - d` on uncompressed G1 signature bytes (None if something does not deserialize).
fn sig_plus(a: &[u8; 96], d: &[u8; 96], negate: bool) -> Option<[u8; 96]> {
    use blst::*;
    // SAFETY: plain C arithmetic on stack values of the right size
    unsafe {
        let (mut pa, mut pd) = (blst_p1_affine::default(), blst_p1_affine::default());
        if blst_p1_deserialize(&mut pa, a.as_ptr()) != BLST_ERROR::BLST_SUCCESS || blst_p1_deserialize(&mut pd, d.as_ptr()) != BLST_ERROR::BLST_SUCCESS {
            return None;
        }
        let (mut ja, mut jd) = (blst_p1::default(), blst_p1::default());
        blst_p1_from_affine(&mut ja, &pa);
        blst_p1_from_affine(&mut jd, &pd);
        if negate {
            blst_p1_cneg(&mut jd, true);
        }
        let mut sum = blst_p1::default();
        blst_p1_add_or_double(&mut sum, &ja, &jd);
        let mut out = [0u8; 96];
        blst_p1_serialize(out.as_mut_ptr(), &sum);
        Some(out)
    }
}

/// The other checks decide "authentic" by comparing with the signature the code itself produces for
/// the claimed vote; that is blind to a signing function that produces the SAME bytes for two
/// different votes. Independent of it: one key's signatures over all distinct (kind, slot, block)
/// votes of a small domain must be pairwise different (BLS signing is deterministic and injective
/// on the message, so equal signatures mean equal signed bytes, i.e. a signature that can be
/// moved between two votes).
fn domain_separation(report: &Report) -> usize {
    let e = make_epoch(&[1, 1, 1]);
    let mut seen: Vec<((u32, u64, Option<u8>), [u8; 96])> = Vec::new();
    let mut pairs = 0;
    for kind in 0..5u32 {
        for slot in [0u64, 1, 2, 255, 256, u64::MAX] {
            for (hi, h) in [HA, HB].iter().enumerate() {
                if kind >= 2 && hi > 0 {
                    continue;
                }
                let m: MMsg = to_mirror(&ConsensusMessage::Vote(honest_vote(&e, kind, slot, h, 1)));
                let MMsg::Vote(mv) = m else { continue };
                let (_, _, _, sig, _) = mvote_fields(&mv);
                let id = (kind, slot, if kind < 2 { Some(hi as u8) } else { None });
                for (other, osig) in &seen {
                    pairs += 1;
                    if *osig == sig {
                        report.violation(
                            format!("C09:one-signature-fits-two-votes:kinds-{}-{}", other.0.min(kind), other.0.max(kind)),
                            format!("the same key's signatures over the votes {other:?} and {id:?} (kind, slot, block) are byte-identical: a signature can be moved from one to the other"),
                            json!({"oracle": "domain-separation", "vote_a": format!("{other:?}"), "vote_b": format!("{id:?}")}),
                        );
                    }
                }
                seen.push((id, sig));
            }
        }
    }
    pairs
}

pub fn run(tier: Tier) -> i32 {
    let report = Report::new("C09", tier, "exploration");
    let separation_pairs = domain_separation(&report);
    println!("  domain separation: {separation_pairs} pairs of distinct votes of one key");
    // mirror self-test
    let e0 = make_epoch(&[1, 1, 1]);
    for k in 0..5 {
        roundtrip_check::<ConsensusMessage, MMsg>(&ConsensusMessage::Vote(honest_vote(&e0, k, 3, &HA, 1)), "vote");
        roundtrip_check::<ConsensusMessage, MMsg>(&ConsensusMessage::Cert(honest_cert(&e0, k, 3, &HA, &[0, 1], &[2])), "cert");
    }
    if std::env::var("C09_DEBUG").is_ok() {
        let c: MMsg = to_mirror(&ConsensusMessage::Cert(honest_cert(&e0, 0, 3, &HA, &[0, 1], &[])));
        if let MMsg::Cert(MCert::Notar(n)) = c {
            println!("subgroup shift available: {:?}", plus_point_outside_subgroup(&n.agg.sig).map(|s| s[..8].to_vec()));
            println!("original: {:?}", &n.agg.sig[..8]);
        }
    }
    let mut epochs: Vec<Vec<u64>> = vec![
        vec![7],
        vec![1, 1],
        vec![1, 1, 1],
        vec![10, 45, 45],
        vec![1, 1, 1, 2],
        vec![19, 27, 27, 27],
        vec![1, 1, 1, 1, 1],
        vec![19, 20, 20, 20, 21],
    ];
    if tier == Tier::Thorough {
        epochs.extend([vec![1, 2, 3, 4], vec![1, 1, 1, 1, 1, 1], vec![5, 5, 5, 5, 40], vec![3, 3, 3, 3, 3, 3, 2]]);
        // every stake vector over {1, 2, 3} for 2..=4 validators (all threshold constellations of small sets)
        for n in 2..=4usize {
            for code in 0..3usize.pow(n as u32) {
                let v: Vec<u64> = (0..n).map(|i| 1 + (code / 3usize.pow(i as u32) % 3) as u64).collect();
                if !epochs.contains(&v) {
                    epochs.push(v);
                }
            }
        }
    }
    let cx = Ctx {
        report: &report,
        evals: AtomicUsize::new(0),
        nontrivial: AtomicUsize::new(0),
        accepted: AtomicUsize::new(0),
        rejected_decode: AtomicUsize::new(0),
        samples: Mutex::new(Samples::new(6)),
    };
    // (epoch, part) work items so that the parallel pool is used evenly
    let items: Vec<(usize, u8)> = (0..epochs.len()).flat_map(|i| [(i, 0u8), (i, 1u8)]).collect();
    items.par_iter().for_each(|(i, part)| {
        let e = make_epoch(&epochs[*i]);
        if *part == 0 {
            vote_sweep(&cx, &e);
        } else {
            cert_sweep(&cx, &e, e.n() <= tier.pick(4, 5));
        }
    });
    let cov = json!({
        "evaluations": cx.evals.load(Ordering::Relaxed),
        "distinct_nontrivial": cx.nontrivial.load(Ordering::Relaxed),
        "rule": "per epoch: every vote kind x signer with every mutation of the menu (kind re-tag, slot, hash, signer incl. out of range, signatures transplanted from the same validator's other votes / from other validators, byte corruptions), and for every certificate type every signer subset (all pairs of halves, overlapping included, for mixed types up to n=4) plus the certificate mutation menu (declared stake, slot, hash, type re-tags, halves swapped/duplicated, bitmask shorter/longer/empty/garbage/out-of-range/2048 bits, aggregate corrupted, replaced, or shifted by a curve point outside the signature subgroup - which leaves every pairing unchanged - and, for mixed certificates, signature material moved between the two halves so that only their sum is preserved); every case goes through the network decoder and ValidatedVote/ValidatedCert::try_new; oracle = signature bytes equal the unique honest (deterministic BLS) signature for the claimed fields and distinct signer stake meets the type's threshold; non-trivial = anything but an unmodified above-threshold message; all cases distinct by construction",
        "exhaustive": true,
        "epochs": epochs,
        "admitted": cx.accepted.load(Ordering::Relaxed),
        "rejected_at_decoding": cx.rejected_decode.load(Ordering::Relaxed),
        "samples": cx.samples.into_inner().unwrap().items,
    });
    report.finish(cov)
}
