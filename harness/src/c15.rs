//! C15: Merkle proofs verify exactly for the leaf at the stated position (E3).

use alpenglow::crypto::Hash;
use alpenglow::crypto::merkle::{DoubleMerkleProof, DoubleMerkleTree, PlainMerkleTree, SliceRoot};
use rayon::prelude::*;
use serde_json::json;
use std::sync::Mutex;
use std::sync::atomic::{AtomicUsize, Ordering};

use crate::common::{Report, Samples, Tier, catch};

const LEAF_LABEL: &[u8; 32] = b"ALPENGLOW-MERKLE-TREE  LEAF-NODE";
const LEFT_LABEL: &[u8; 32] = b"ALPENGLOW-MERKLE-TREE  LEFT-NODE";
const RIGHT_LABEL: &[u8; 32] = b"ALPENGLOW-MERKLE-TREE RIGHT-NODE";

fn h(parts: &[&[u8]]) -> Hash {
    let mut v = Vec::new();
    for p in parts {
        v.extend_from_slice(p);
    }
    alpenglow::crypto::hash(&v)
}

fn ref_leaf(data: &[u8]) -> Hash {
    h(&[LEAF_LABEL, data])
}
fn ref_pair(l: &Hash, r: &Hash) -> Hash {
    h(&[LEFT_LABEL, l.as_ref(), RIGHT_LABEL, r.as_ref()])
}

/// Independent reference tree: all levels of the padded perfect tree.
struct RefTree {
    levels: Vec<Vec<Hash>>, // levels[0] = padded leaf hashes
}

/// Root of an all-empty subtree of the given height, as 32 bytes (reference computation).
pub fn empty_root_bytes(height: usize) -> [u8; 32] {
    wincode::serialize(&RefTree::empty_root(height)).expect("ser").try_into().expect("32 bytes")
}

impl RefTree {
    fn new(leaves: &[Vec<u8>]) -> Self {
        let mut height = 0;
        while (1usize << height) < leaves.len() {
            height += 1;
        }
        let width = 1usize << height;
        let mut level: Vec<Hash> = (0..width)
            .map(|i| ref_leaf(leaves.get(i).map(|v| v.as_slice()).unwrap_or(&[])))
            .collect();
        let mut levels = vec![level.clone()];
        while level.len() > 1 {
            level = level.chunks(2).map(|c| ref_pair(&c[0], &c[1])).collect();
            levels.push(level.clone());
        }
        Self { levels }
    }
    fn height(&self) -> usize {
        self.levels.len() - 1
    }
    fn root(&self) -> Hash {
        self.levels.last().unwrap()[0].clone()
    }
    fn path(&self, mut i: usize) -> Vec<Hash> {
        let mut p = Vec::new();
        for l in 0..self.height() {
            p.push(self.levels[l][i ^ 1].clone());
            i /= 2;
        }
        p
    }
    /// Root of an all-empty subtree of the given height.
    fn empty_root(height: usize) -> Hash {
        let mut x = ref_leaf(&[]);
        for _ in 0..height {
            x = ref_pair(&x, &x);
        }
        x
    }
}

fn flip(hash: &Hash, bit: usize) -> Hash {
    let mut b = wincode::serialize(hash).expect("ser");
    b[bit / 8] ^= 1 << (bit % 8);
    wincode::deserialize(&b).expect("de")
}

struct Claim {
    class: &'static str,
    leaf: Vec<u8>,
    index: usize,
    root: Hash,
    proof: Vec<Hash>,
    expect: bool,
    expect_last: bool,
}

fn leaf_data(n: usize, i: usize, trailing_empty: usize, holes: u64) -> Vec<u8> {
    if i >= n - trailing_empty || (i < 64 && holes >> i & 1 == 1) {
        Vec::new()
    } else {
        // every third leaf is exactly as long as a hash (leaf / inner-node domain separation)
        let mut v = format!("leaf-{n}-{i}").into_bytes();
        if (n + i) % 3 == 0 {
            v.resize(32, b'.');
        }
        v
    }
}

fn claims_for(leaves: &[Vec<u8>], rt: &RefTree, i: usize, reduced: bool) -> Vec<Claim> {
    let n = leaves.len();
    let width = 1usize << rt.height();
    let root = rt.root();
    let path = rt.path(i);
    let right_empty = (i + 1..n).all(|k| leaves[k].is_empty());
    let mut out = Vec::new();
    let mk = |class, leaf: &Vec<u8>, index, root: &Hash, proof: &Vec<Hash>, e, el| Claim {
        class,
        leaf: leaf.clone(),
        index,
        root: root.clone(),
        proof: proof.clone(),
        expect: e,
        expect_last: el,
    };
    out.push(mk("genuine", &leaves[i], i, &root, &path, true, right_empty));
    if leaves[i].is_empty() {
        return out; // explicit empty leaves are indistinguishable from each other; only genuine claim
    }
    // other indices inside and beyond the width
    let span = if reduced { 2 * width } else { 4 * width };
    // very large trees: a structured set of other indices instead of every one
    let others: Vec<usize> = if n > 5000 {
        let mut v: Vec<usize> = (0..64).collect();
        v.extend([i.wrapping_sub(1), i + 1, i ^ 1, i ^ (width >> 1), i + width, i + 2 * width, width - 1, width, width + 1, 2 * width - 1, 3 * width + i]);
        v.retain(|j| *j < usize::MAX / 2);
        v.sort();
        v.dedup();
        v
    } else {
        (0..span.max(4)).collect()
    };
    for j in others {
        if j != i {
            let class = if j % width == i { "index-aliased-beyond-width" } else { "wrong-index" };
            out.push(mk(class, &leaves[i], j, &root, &path, false, false));
        }
    }
    for j in [
        i + (1usize << 20),
        i + (1usize << 32),
        i + (1usize << 33),
        (usize::MAX - (width - 1)) | i,
        i | (1usize << 63),
        usize::MAX,
    ] {
        if j != i {
            let class = if j % width == i { "index-aliased-beyond-width" } else { "wrong-index" };
            out.push(mk(class, &leaves[i], j, &root, &path, false, false));
        }
    }
    // other leaves
    for k in [(i + 1) % n, (i + n - 1) % n] {
        if leaves[k] != leaves[i] {
            out.push(mk("wrong-leaf", &leaves[k], i, &root, &path, false, false));
        }
    }
    out.push(mk("wrong-leaf", &Vec::new(), i, &root, &path, false, false));
    let mut longer = leaves[i].clone();
    longer.push(0);
    out.push(mk("wrong-leaf", &longer, i, &root, &path, false, false));
    // root
    out.push(mk("wrong-root", &leaves[i], i, &flip(&root, 0), &path, false, false));
    out.push(mk("wrong-root", &leaves[i], i, &flip(&root, 255), &path, false, false));
    // proof elements
    for e in 0..path.len() {
        let mut p = path.clone();
        p[e] = flip(&path[e], 7 * e % 256);
        out.push(mk("proof-element-flipped", &leaves[i], i, &root, &p, false, false));
        let er = RefTree::empty_root(e);
        if path[e] != er {
            let mut p = path.clone();
            p[e] = er;
            out.push(mk("proof-element-emptied", &leaves[i], i, &root, &p, false, false));
        }
        // replace by the node on the path itself (the "sibling of the sibling")
        let own = rt.levels[e][i >> e].clone();
        if own != path[e] {
            let mut p = path.clone();
            p[e] = own;
            out.push(mk("proof-element-swapped", &leaves[i], i, &root, &p, false, false));
        }
        if e + 1 < path.len() {
            let mut p = path.clone();
            p.swap(e, e + 1);
            if p != path {
                out.push(mk("proof-elements-reordered", &leaves[i], i, &root, &p, false, false));
            }
        }
    }
    // an inner node of the tree passed off as a leaf: node at height k on the path, position
    // i >> k, with the remaining upper part of the path (and the lower-level variants of it)
    for k in 1..=path.len() {
        let node: Vec<u8> = wincode::serialize(&rt.levels[k][i >> k]).expect("ser");
        let upper: Vec<Hash> = path[k..].to_vec();
        out.push(mk("inner-node-as-leaf", &node, i >> k, &root, &upper, false, false));
        out.push(mk("inner-node-as-leaf", &node, i, &root, &upper, false, false));
        out.push(mk("inner-node-as-leaf", &node, i >> k, &root, &path, false, false));
        // the sibling subtree's root likewise
        let sib: Vec<u8> = wincode::serialize(&path[k - 1]).expect("ser");
        let mut p = vec![rt.levels[k - 1][i >> (k - 1)].clone()];
        p.extend_from_slice(&path[k..]);
        out.push(mk("inner-node-as-leaf", &sib, (i >> (k - 1)) ^ 1, &root, &p, false, false));
    }
    // the leaf's own hash passed off as the leaf
    let own_hash: Vec<u8> = wincode::serialize(&rt.levels[0][i]).expect("ser");
    out.push(mk("inner-node-as-leaf", &own_hash, i, &root, &path, false, false));
    // proof length
    for l in 0..path.len() {
        let p: Vec<Hash> = path[..l].to_vec();
        out.push(mk("proof-shortened", &leaves[i], i, &root, &p, false, false));
        let p: Vec<Hash> = path[path.len() - l..].to_vec();
        if p != path {
            out.push(mk("proof-shortened", &leaves[i], i, &root, &p, false, false));
        }
    }
    let targets: Vec<usize> = if reduced { vec![path.len() + 1, 32, 33] } else { (path.len() + 1..=34).collect() };
    for l in targets {
        if l <= path.len() {
            continue;
        }
        let mut p = path.clone();
        while p.len() < l {
            p.push(RefTree::empty_root(p.len().min(40)));
        }
        out.push(mk("proof-lengthened", &leaves[i], i, &root, &p, false, false));
        let mut p = path.clone();
        while p.len() < l {
            p.push(ref_leaf(b"garbage"));
        }
        out.push(mk("proof-lengthened", &leaves[i], i, &root, &p, false, false));
    }
    out
}

pub fn run(tier: Tier) -> i32 {
    let report = Report::new("C15", tier, "exploration");
    let mut sizes: Vec<usize> = (1..=64).collect();
    sizes.extend([65, 127, 128, 129, 255, 256, 257, 1023, 1024]);
    if tier == Tier::Thorough {
        sizes = (1..=1024).collect();
        sizes.extend([1025, 2047, 2048, 4096]);
    }
    // far beyond what a block needs, around the 2^15 / 2^16 node-count boundaries (index width)
    sizes.extend([32_767, 32_768, 32_769, 50_001, 65_535, 65_536, 65_537]);
    if tier == Tier::Thorough {
        sizes.extend([131_072, 131_073, 300_000]);
    }
    let evals = AtomicUsize::new(0);
    let nontrivial = AtomicUsize::new(0);
    let accepted_true = AtomicUsize::new(0);
    let samples = Mutex::new(Samples::new(5));
    let classes: Mutex<std::collections::BTreeMap<&'static str, usize>> = Mutex::new(Default::default());
    // (n, trailing explicit empty leaves, mask of further explicit empty leaves anywhere)
    let mut trees: Vec<(usize, usize, u64)> = Vec::new();
    for n in &sizes {
        trees.push((*n, 0, 0));
        if *n >= 2 && *n <= 33 {
            trees.push((*n, 1, 0));
        }
        if *n >= 4 && *n <= 17 {
            trees.push((*n, n / 2, 0));
        }
    }
    // empty leaves in the middle of the tree: every pattern for small trees, aligned empty
    // subtrees followed by data for larger ones
    for n in 2..=tier.pick(6usize, 10) {
        for holes in 1u64..(1 << n) {
            trees.push((n, 0, holes));
        }
    }
    for (n, from, to) in [(24usize, 10usize, 16usize), (24, 8, 16), (40, 16, 32), (12, 4, 8), (9, 1, 8), (33, 2, 32), (64, 32, 63)] {
        trees.push((n, 0, ((1u64 << to) - 1) & !((1u64 << from) - 1)));
    }
    trees.par_iter().for_each(|(n, trailing, holes)| {
        let leaves: Vec<Vec<u8>> = (0..*n).map(|i| leaf_data(*n, i, *trailing, *holes)).collect();
        let rt = RefTree::new(&leaves);
        let tree = match catch(std::panic::AssertUnwindSafe(|| PlainMerkleTree::new(&leaves))) {
            Ok(t) => t,
            Err(p) => {
                report.violation("C15:tree-construction-panics", format!("a tree of {n} leaves cannot be built: {p:.120}"), json!({"leaves": n}));
                return;
            }
        };
        if tree.get_root() != rt.root() {
            report.violation(
                "C15:root-differs-from-reference",
                format!("tree of {n} leaves: root differs from the independent reference"),
                json!({"leaves": n, "trailing_empty": trailing}),
            );
            return;
        }
        let reduced = *n > 64;
        let idxs: Vec<usize> = if *n <= 64 {
            (0..*n).collect()
        } else {
            let mut v = vec![0, 1, n / 2 - 1, n / 2, n - 2, n - 1];
            v.extend((0..*n).step_by(if *n > 5000 { *n / 24 } else { 37 }));
            v.sort();
            v.dedup();
            v
        };
        for i in idxs {
            // the tree's own proof must equal the reference path
            let own = tree.create_proof(i);
            if own != rt.path(i) {
                report.violation(
                    "C15:created-proof-differs-from-reference",
                    format!("tree of {n} leaves, leaf {i}"),
                    json!({"leaves": n, "index": i}),
                );
            }
            for c in claims_for(&leaves, &rt, i, reduced) {
                evals.fetch_add(2, Ordering::Relaxed);
                if c.class != "genuine" {
                    nontrivial.fetch_add(1, Ordering::Relaxed);
                } else {
                    accepted_true.fetch_add(1, Ordering::Relaxed);
                }
                *classes.lock().unwrap().entry(c.class).or_default() += 1;
                let r = catch(|| {
                    (
                        PlainMerkleTree::check_proof(&c.leaf, c.index, &c.root, &c.proof),
                        PlainMerkleTree::check_proof_last(&c.leaf, c.index, &c.root, &c.proof),
                    )
                });
                let replay = json!({
                    "leaves": n, "trailing_empty_leaves": trailing, "empty_leaf_mask": holes, "genuine_index": i,
                    "claimed_index": c.index, "class": c.class, "proof_len": c.proof.len(),
                    "tree_height": rt.height(),
                });
                samples.lock().unwrap().push(|| replay.clone());
                match r {
                    Err(msg) => report.violation(
                        format!("C15:panic:{}", c.class),
                        format!("verification panicked: {msg}"),
                        replay,
                    ),
                    Ok((got, got_last)) => {
                        if got != c.expect {
                            let key = if c.expect {
                                "C15:genuine-proof-rejected".to_string()
                            } else {
                                format!("C15:check_proof-accepts:{}", c.class)
                            };
                            report.violation(
                                key,
                                format!(
                                    "check_proof returned {got} (expected {}) for a {} claim: {n}-leaf tree, genuine index {i}, claimed index {}, proof length {}",
                                    c.expect, c.class, c.index, c.proof.len()
                                ),
                                replay.clone(),
                            );
                        }
                        if got_last != c.expect_last {
                            let key = if c.expect_last {
                                "C15:genuine-last-proof-rejected".to_string()
                            } else if c.class == "genuine" {
                                "C15:check_proof_last-accepts:non-last-leaf".to_string()
                            } else {
                                format!("C15:check_proof_last-accepts:{}", c.class)
                            };
                            report.violation(
                                key,
                                format!(
                                    "check_proof_last returned {got_last} (expected {}) for a {} claim: {n}-leaf tree ({trailing} trailing empty), genuine index {i}, claimed index {}",
                                    c.expect_last, c.class, c.index
                                ),
                                replay,
                            );
                        }
                    }
                }
            }
        }
    });
    // synthetic tall paths (no tree of that size can be built): for heights h = 20..=33 a leaf with h
    // hand-made siblings and the root derived by the reference; the path verifies iff h <= 32 (the
    // deepest tree supported), and any lengthening of a verifying path must be rejected
    for hgt in 20..=33usize {
        for index in [0usize, 1, (1usize << (hgt - 1)) - 1, 1usize << (hgt - 1)] {
            let leaf = format!("tall-{hgt}-{index}").into_bytes();
            let sib: Vec<Hash> = (0..hgt).map(|l| h(&[b"tall-sibling", &[l as u8], &(index as u64).to_le_bytes()])).collect();
            let mut acc = ref_leaf(&leaf);
            let mut i = index;
            for s in &sib {
                acc = if i & 1 == 0 { ref_pair(&acc, s) } else { ref_pair(s, &acc) };
                i >>= 1;
            }
            let root = acc;
            let mut cases: Vec<(&'static str, Vec<Hash>, bool)> = vec![("tall-genuine", sib.clone(), hgt <= 32)];
            for extra in 1..=3usize {
                let mut p = sib.clone();
                for e in 0..extra {
                    p.push(h(&[b"tall-extra", &[e as u8]]));
                }
                cases.push(("tall-proof-lengthened", p, false));
            }
            for (class, proof, expect) in cases {
                evals.fetch_add(1, Ordering::Relaxed);
                nontrivial.fetch_add(1, Ordering::Relaxed);
                *classes.lock().unwrap().entry(class).or_default() += 1;
                let replay = json!({"synthetic_path_height": hgt, "claimed_index": index, "class": class, "proof_len": proof.len()});
                match catch(|| PlainMerkleTree::check_proof(&leaf, index, &root, &proof)) {
                    Err(msg) => report.violation(format!("C15:panic:{class}"), format!("verification panicked: {msg}"), replay),
                    Ok(got) => {
                        if got != expect {
                            report.violation(
                                if expect { "C15:genuine-proof-rejected".to_string() } else { format!("C15:check_proof-accepts:{class}") },
                                format!("check_proof returned {got} (expected {expect}) for a path of height {hgt} presented with {} proof elements", proof.len()),
                                replay,
                            );
                        }
                    }
                }
            }
        }
    }
    // typed instantiation used by repair: double-Merkle tree over slice roots
    let mut typed = 0usize;
    for n in 1..=tier.pick(16usize, 64) {
        let roots: Vec<SliceRoot> = (0..n).map(|i| ref_leaf(format!("slice-{i}").as_bytes()).into()).collect();
        let tree = DoubleMerkleTree::new(roots.iter());
        let root = tree.get_root();
        let width = n.next_power_of_two();
        for i in 0..n {
            let proof: DoubleMerkleProof = tree.create_proof(i);
            for j in (0..4 * width).chain([i + 1024, i + (1 << 32)]) {
                typed += 2;
                let got = DoubleMerkleTree::check_proof(&roots[i], j, &root, &proof);
                let got_last = DoubleMerkleTree::check_proof_last(&roots[i], j, &root, &proof);
                let replay = json!({"tree": "DoubleMerkleTree", "slices": n, "genuine_index": i, "claimed_index": j});
                if got != (j == i) {
                    let class = if j % width == i { "index-aliased-beyond-width" } else { "wrong-index" };
                    report.violation(
                        format!("C15:check_proof-accepts:{class}"),
                        format!("DoubleMerkleTree::check_proof({n} slices, slice {i}) returned {got} for claimed index {j}"),
                        replay.clone(),
                    );
                }
                if got_last != (j == i && i == n - 1) {
                    let class = if j % width == i { "index-aliased-beyond-width" } else if j == i { "non-last-leaf" } else { "wrong-index" };
                    report.violation(
                        format!("C15:check_proof_last-accepts:{class}"),
                        format!("DoubleMerkleTree::check_proof_last({n} slices, slice {i}) returned {got_last} for claimed index {j}: slice count can be misreported"),
                        replay,
                    );
                }
            }
        }
    }
    let evaluations = evals.load(Ordering::Relaxed) + typed;
    let cov = json!({
        "evaluations": evaluations,
        "distinct_nontrivial": nontrivial.load(Ordering::Relaxed),
        "rule": "for every tree size in the list (with 0, 1 or n/2 trailing explicit empty leaves) and every leaf (all leaves up to 64, a spread above), the genuine claim plus every mutated claim from the menu (claimed index 0..4*width and structured out-of-width values, other leaves, flipped root, each proof element flipped / emptied / swapped / reordered, every shorter proof, longer proofs up to 34) is passed to check_proof and check_proof_last; expected verdict from an independent recursive reference tree; a case is non-trivial iff it is a mutated (non-genuine) claim; all claims are distinct by construction",
        "exhaustive": true,
        "tree_sizes": sizes.len(),
        "trees": trees.len(),
        "genuine_claims": accepted_true.load(Ordering::Relaxed),
        "typed_double_merkle_evaluations": typed,
        "claims_per_class": *classes.lock().unwrap(),
        "samples": samples.into_inner().unwrap().items,
    });
    report.finish(cov)
}
