//! Shared machinery: deterministic epochs, one-poll futures, panic capture,
//! evidence files, violation reporting and the known-findings file.

use std::collections::BTreeMap;
use std::future::Future;
use std::panic::{AssertUnwindSafe, catch_unwind};
use std::pin::pin;
use std::sync::Arc;
use std::sync::Mutex;
use std::task::{Context, Poll, Waker};
use std::time::Instant;

use alpenglow::consensus::{EpochInfo, ValidatorEpochInfo};
use alpenglow::crypto::merkle::BlockHash;
use alpenglow::crypto::{aggsig, signature};
use alpenglow::network::localhost_ip_sockaddr;
use alpenglow::{Stake, ValidatorIndex, ValidatorInfo};
use rand::SeedableRng;
use rand::rngs::StdRng;
use serde_json::{Value, json};

pub const VERIF_DIR: &str = "/verif";

#[derive(Clone, Copy, Debug, PartialEq, Eq)]
pub enum Tier {
    Quick,
    Thorough,
}

impl Tier {
    pub fn name(self) -> &'static str {
        match self {
            Tier::Quick => "quick",
            Tier::Thorough => "thorough",
        }
    }
    pub fn pick<T>(self, quick: T, thorough: T) -> T {
        match self {
            Tier::Quick => quick,
            Tier::Thorough => thorough,
        }
    }
}

/// Key seed; influences keys only (enumerations are seed independent).
pub fn seed() -> u64 {
    std::env::var("VERIF_SEED")
        .ok()
        .and_then(|s| s.parse::<i64>().ok())
        .map(|s| s as u64)
        .unwrap_or(1)
}

/// A validator set with all secret keys, generated deterministically.
#[derive(Clone)]
pub struct Epoch {
    pub sks: Vec<aggsig::SecretKey>,
    pub sig_sks: Vec<signature::SecretKey>,
    pub info: EpochInfo,
    pub stakes: Vec<u64>,
}

pub fn make_epoch(stakes: &[u64]) -> Epoch {
    make_epoch_ports(stakes, |_i, _ch| 0)
}

/// `port(i, channel)` gives the port of validator i's channel
/// (0 all2all, 1 disseminator, 2 repair requester, 3 repair responder).
pub fn make_epoch_ports(stakes: &[u64], port: impl Fn(usize, u16) -> u16) -> Epoch {
    let mut rng = StdRng::seed_from_u64(seed() ^ 0x5eed_a1b2_c3d4);
    let mut sks = Vec::new();
    let mut sig_sks = Vec::new();
    let mut validators = Vec::new();
    for (i, stake) in stakes.iter().enumerate() {
        sig_sks.push(signature::SecretKey::new(&mut rng));
        sks.push(aggsig::SecretKey::new(&mut rng));
        validators.push(ValidatorInfo {
            id: ValidatorIndex::new(i as u64),
            stake: Stake::new(*stake),
            pubkey: sig_sks[i].to_pk(),
            voting_pubkey: sks[i].to_pk(),
            all2all_address: localhost_ip_sockaddr(port(i, 0)),
            disseminator_address: localhost_ip_sockaddr(port(i, 1)),
            repair_requester_address: localhost_ip_sockaddr(port(i, 2)),
            repair_responder_address: localhost_ip_sockaddr(port(i, 3)),
        });
    }
    Epoch {
        sks,
        sig_sks,
        info: EpochInfo::new(validators),
        stakes: stakes.to_vec(),
    }
}

impl Epoch {
    pub fn n(&self) -> usize {
        self.stakes.len()
    }
    pub fn total(&self) -> u64 {
        self.stakes.iter().sum()
    }
    pub fn vei(&self, own: usize) -> Arc<ValidatorEpochInfo> {
        Arc::new(ValidatorEpochInfo::new(
            ValidatorIndex::new(own as u64),
            self.info.clone(),
        ))
    }
    /// `num/den` of total stake reached by `stake` (integer arithmetic).
    pub fn meets(&self, stake: u64, num: u64, den: u64) -> bool {
        (stake as u128) * (den as u128) >= (self.total() as u128) * (num as u128)
    }
}

pub fn vi(i: usize) -> ValidatorIndex {
    ValidatorIndex::new(i as u64)
}

/// Deterministic block hash from a label.
pub fn bh(label: &str) -> BlockHash {
    alpenglow::crypto::hash(label.as_bytes()).into()
}

pub fn short(h: &BlockHash) -> String {
    format!("{}", h.short_hex())
}

/// Polls a future exactly once; a `Pending` is a machinery error.
pub fn poll_once<F: Future>(fut: F) -> F::Output {
    let mut fut = pin!(fut);
    let mut cx = Context::from_waker(Waker::noop());
    match fut.as_mut().poll(&mut cx) {
        Poll::Ready(v) => v,
        Poll::Pending => machinery_failure("future was Pending where a single poll must complete"),
    }
}

/// Polls a future once; returns None if pending.
pub fn try_poll_once<F: Future>(fut: F) -> Option<F::Output> {
    let mut fut = pin!(fut);
    let mut cx = Context::from_waker(Waker::noop());
    match fut.as_mut().poll(&mut cx) {
        Poll::Ready(v) => Some(v),
        Poll::Pending => None,
    }
}

pub fn machinery_failure(msg: &str) -> ! {
    eprintln!("MACHINERY-FAILURE: {msg}");
    std::process::exit(2)
}

/// `vcheck replay <file>`: the recorded schedule to re-execute instead of exploring.
pub struct ReplayReq {
    pub label: String,
    pub actions: Vec<u16>,
}
pub static REPLAY: std::sync::OnceLock<ReplayReq> = std::sync::OnceLock::new();
/// (system label, violation keys of run 1, violation keys of run 2, state digests equal)
pub static REPLAY_RESULTS: Mutex<Vec<(String, Vec<String>, Vec<String>, bool)>> = Mutex::new(Vec::new());
pub fn replay_req() -> Option<&'static ReplayReq> {
    REPLAY.get()
}

static PANIC_MESSAGES: Mutex<Vec<String>> = Mutex::new(Vec::new());
static THREAD_PANICS: Mutex<Vec<(std::thread::ThreadId, String)>> = Mutex::new(Vec::new());

/// Installs a quiet panic hook that records messages (process wide).
pub fn install_panic_hook() {
    std::panic::set_hook(Box::new(|info| {
        let msg = if let Some(s) = info.payload().downcast_ref::<&str>() {
            (*s).to_string()
        } else if let Some(s) = info.payload().downcast_ref::<String>() {
            s.clone()
        } else {
            "<non-string panic>".to_string()
        };
        let loc = info
            .location()
            .map(|l| format!("{}:{}", l.file(), l.line()))
            .unwrap_or_default();
        if let Ok(mut v) = PANIC_MESSAGES.lock() {
            if v.len() < 10_000 {
                v.push(format!("{msg} @ {loc}"));
            }
        }
        if let Ok(mut v) = THREAD_PANICS.lock() {
            if v.len() < 100_000 {
                v.push((std::thread::current().id(), format!("{msg} @ {loc}")));
            }
        }
    }));
}

pub fn take_panics() -> Vec<String> {
    std::mem::take(&mut *PANIC_MESSAGES.lock().unwrap())
}

/// Panics recorded on the calling thread since the last call (a whole-node simulation runs all
/// its tasks on the thread that drives its current-thread runtime).
pub fn take_thread_panics() -> Vec<String> {
    let me = std::thread::current().id();
    let mut g = THREAD_PANICS.lock().unwrap();
    let mut mine = Vec::new();
    g.retain(|(t, m)| {
        if *t == me {
            mine.push(m.clone());
            false
        } else {
            true
        }
    });
    mine
}

pub fn panics_seen() -> usize {
    PANIC_MESSAGES.lock().unwrap().len()
}

/// Runs `f`, converting a panic into `Err(message)`.
/// Most recent panic message (with location) recorded by the hook.
pub fn last_panic() -> Option<String> {
    PANIC_MESSAGES.lock().ok().and_then(|v| v.last().cloned())
}

pub fn catch<T>(f: impl FnOnce() -> T) -> Result<T, String> {
    match catch_unwind(AssertUnwindSafe(f)) {
        Ok(v) => Ok(v),
        Err(p) => {
            let msg = if let Some(s) = p.downcast_ref::<&str>() {
                (*s).to_string()
            } else if let Some(s) = p.downcast_ref::<String>() {
                s.clone()
            } else {
                "<non-string panic>".to_string()
            };
            Err(msg)
        }
    }
}

/// A violation found by a check.
#[derive(Clone, Debug)]
pub struct Violation {
    /// Classification key computed from the failing *input* (not from behaviour);
    /// matched against /verif/known_findings.json.
    pub key: String,
    pub what: String,
    pub replay: Value,
}

/// Collects results of one check run and writes evidence.
pub struct Report {
    pub id: &'static str,
    pub tier: Tier,
    pub level: &'static str,
    start: Instant,
    violations: Mutex<BTreeMap<String, (Violation, usize)>>,
    pub assumptions: Vec<String>,
}

impl Report {
    pub fn new(id: &'static str, tier: Tier, level: &'static str) -> Self {
        Self {
            id,
            tier,
            level,
            start: Instant::now(),
            violations: Mutex::new(BTreeMap::new()),
            assumptions: Vec::new(),
        }
    }

    pub fn elapsed(&self) -> f64 {
        self.start.elapsed().as_secs_f64()
    }

    /// Records a violation (first replay per key is kept, others counted).
    pub fn violation(&self, key: impl Into<String>, what: impl Into<String>, replay: Value) {
        let key = key.into();
        let mut v = self.violations.lock().unwrap();
        v.entry(key.clone())
            .and_modify(|e| e.1 += 1)
            .or_insert((
                Violation {
                    key,
                    what: what.into(),
                    replay,
                },
                1,
            ));
    }

    pub fn violation_count(&self) -> usize {
        self.violations.lock().unwrap().len()
    }

    /// Writes evidence, prints KNOWN-FINDING / VIOLATION lines, returns exit code.
    pub fn finish(self, coverage: Value) -> i32 {
        if replay_req().is_some() {
            // a replay never rewrites evidence or replay files
            return 0;
        }
        let known = load_known_findings(self.id);
        let violations = self.violations.into_inner().unwrap();
        let mut new_violations = 0;
        // finding id -> (what, distinct inputs hit, occurrences)
        let mut known_hits: BTreeMap<String, (String, usize, usize)> = BTreeMap::new();
        let mut lines = Vec::new();
        std::fs::create_dir_all(format!("{VERIF_DIR}/replays")).ok();
        let mut all_keys = Vec::new();
        for (n, (key, (v, count))) in violations.iter().enumerate() {
            all_keys.push(key.clone());
            if let Some((fid, what)) = known.get(key) {
                let e = known_hits.entry(fid.clone()).or_insert((what.clone(), 0, 0));
                e.1 += 1;
                e.2 += count;
            } else {
                new_violations += 1;
                let path = format!("{VERIF_DIR}/replays/{}-{}.json", self.id, n);
                let body = json!({
                    "property": self.id,
                    "key": key,
                    "what": v.what,
                    "occurrences": count,
                    "replay": v.replay,
                });
                std::fs::write(&path, serde_json::to_string_pretty(&body).unwrap()).ok();
                if new_violations <= 40 {
                    lines.push(format!("VIOLATION property={} replay={}", self.id, path));
                    lines.push(format!("  key={} what={}", key, v.what));
                }
            }
        }
        if new_violations > 40 {
            lines.push(format!("  ... {} further violations (replay files written)", new_violations - 40));
        }
        for (fid, (what, inputs, occ)) in &known_hits {
            lines.push(format!(
                "KNOWN-FINDING: property={} finding={} {} ({} listed inputs hit, {} occurrences this run)",
                self.id, fid, what, inputs, occ
            ));
        }
        if std::env::var("VERIF_DUMP_KEYS").is_ok() {
            std::fs::write(format!("{VERIF_DIR}/.keys-{}.json", self.id), serde_json::to_string_pretty(&json!(violations.iter().map(|(k, (v, _))| json!({"key": k, "what": v.what})).collect::<Vec<_>>())).unwrap()).ok();
        }
        let mut coverage = coverage;
        if let Value::Object(m) = &mut coverage {
            m.insert("known_findings_hit".into(), json!(known_hits.keys().collect::<Vec<_>>()));
        }
        let ev = json!({
            "property_id": self.id,
            "tier": self.tier.name(),
            "seed": seed() as i64,
            "level": self.level,
            "coverage": coverage,
            "assumptions": self.assumptions,
            "wall_s": self.start.elapsed().as_secs_f64(),
            "violations": new_violations,
        });
        std::fs::create_dir_all(format!("{VERIF_DIR}/evidence")).ok();
        let path = format!("{VERIF_DIR}/evidence/{}.json", self.id);
        if let Err(e) = std::fs::write(&path, serde_json::to_string_pretty(&ev).unwrap()) {
            machinery_failure(&format!("cannot write evidence {path}: {e}"));
        }
        for l in lines {
            println!("{l}");
        }
        println!(
            "{} {} done in {:.1}s: violations={} known_findings={}",
            self.id,
            self.tier.name(),
            self.start.elapsed().as_secs_f64(),
            new_violations,
            known_hits.len()
        );
        if new_violations > 0 { 1 } else { 0 }
    }
}

/// key -> (finding id, description) for `property` from /verif/known_findings.json
/// (never written at run time). A finding lists the exact failing inputs as `keys`
/// (or a single `key`), so that a different failing input is still a VIOLATION.
pub fn load_known_findings(property: &str) -> BTreeMap<String, (String, String)> {
    let mut out = BTreeMap::new();
    let path = format!("{VERIF_DIR}/known_findings.json");
    let Ok(text) = std::fs::read_to_string(&path) else {
        return out;
    };
    let Ok(v) = serde_json::from_str::<Value>(&text) else {
        machinery_failure("known_findings.json does not parse");
    };
    if let Some(list) = v.get("findings").and_then(|f| f.as_array()) {
        for f in list {
            if f.get("property").and_then(|p| p.as_str()) != Some(property) {
                continue;
            }
            let what = f.get("what").and_then(|k| k.as_str()).unwrap_or("").to_string();
            let id = f.get("id").and_then(|k| k.as_str()).unwrap_or("unnamed").to_string();
            if let Some(k) = f.get("key").and_then(|k| k.as_str()) {
                out.insert(k.to_string(), (id.clone(), what.clone()));
            }
            if let Some(ks) = f.get("keys").and_then(|k| k.as_array()) {
                for k in ks.iter().filter_map(|k| k.as_str()) {
                    out.insert(k.to_string(), (id.clone(), what.clone()));
                }
            }
            // compact form of an exact list: every key is `key_prefix` + one of `inputs`
            if let (Some(prefix), Some(inputs)) = (f.get("key_prefix").and_then(|k| k.as_str()), f.get("inputs").and_then(|k| k.as_array())) {
                for i in inputs.iter().filter_map(|k| k.as_str()) {
                    out.insert(format!("{prefix}{i}"), (id.clone(), what.clone()));
                }
            }
        }
    }
    out
}

/// Stable 64-bit hasher for state digests (SipHash with fixed keys).
pub fn new_hasher() -> std::collections::hash_map::DefaultHasher {
    std::collections::hash_map::DefaultHasher::new()
}

/// Keeps the first `cap` samples pushed.
pub struct Samples {
    pub cap: usize,
    pub items: Vec<Value>,
}

impl Samples {
    pub fn new(cap: usize) -> Self {
        Self {
            cap,
            items: Vec::new(),
        }
    }
    pub fn push(&mut self, v: impl FnOnce() -> Value) {
        if self.items.len() < self.cap {
            self.items.push(v());
        }
    }
}

pub fn rss_gb() -> f64 {
    std::fs::read_to_string("/proc/self/statm")
        .ok()
        .and_then(|s| s.split_whitespace().nth(1).and_then(|x| x.parse::<f64>().ok()))
        .map(|pages| pages * 4096.0 / 1e9)
        .unwrap_or(0.0)
}

// ---------------------------------------------------------------------------
// process-wide caches of signature validation verdicts (BLS checks dominate run time;
// signatures are deterministic functions of key and payload, so caching by bytes is exact)

use alpenglow::consensus::{Cert, ValidatedCert, ValidatedVote, Vote};
use std::collections::HashMap;
use std::sync::OnceLock;

type VoteCache = Mutex<HashMap<Vec<u8>, Option<ValidatedVote>>>;
type CertCache = Mutex<HashMap<Vec<u8>, Option<ValidatedCert>>>;
static VOTE_CACHE: OnceLock<Vec<VoteCache>> = OnceLock::new();
static CERT_CACHE: OnceLock<Vec<CertCache>> = OnceLock::new();

fn shard(bytes: &[u8]) -> usize {
    let mut x = 0usize;
    for b in bytes.iter().rev().take(8) {
        x = x.wrapping_mul(31).wrapping_add(*b as usize);
    }
    x % 64
}

/// `ValidatedVote::try_new` with a cache keyed by (epoch tag, wire bytes).
pub fn validate_vote_cached(v: &Vote, epoch: &Epoch) -> Option<ValidatedVote> {
    let caches = VOTE_CACHE.get_or_init(|| (0..64).map(|_| Mutex::new(HashMap::new())).collect());
    let mut key = wincode::serialize(v).expect("ser");
    key.extend_from_slice(&epoch_tag(epoch));
    let c = &caches[shard(&key)];
    if let Some(x) = c.lock().unwrap().get(&key) {
        return x.clone();
    }
    let x = ValidatedVote::try_new(v.clone(), &epoch.info).ok();
    c.lock().unwrap().insert(key, x.clone());
    x
}

/// `ValidatedCert::try_new` with a cache keyed by (epoch tag, wire bytes).
pub fn validate_cert_cached(v: &Cert, epoch: &Epoch) -> Option<ValidatedCert> {
    let caches = CERT_CACHE.get_or_init(|| (0..64).map(|_| Mutex::new(HashMap::new())).collect());
    let mut key = wincode::serialize(v).expect("ser");
    key.extend_from_slice(&epoch_tag(epoch));
    let c = &caches[shard(&key)];
    if let Some(x) = c.lock().unwrap().get(&key) {
        return x.clone();
    }
    let x = ValidatedCert::try_new(v.clone(), &epoch.info).ok();
    c.lock().unwrap().insert(key, x.clone());
    x
}

fn epoch_tag(epoch: &Epoch) -> Vec<u8> {
    let mut t = Vec::new();
    for s in &epoch.stakes {
        t.extend_from_slice(&s.to_le_bytes());
    }
    t
}
