//! C03 / C04 / C06: exhaustive delivery-lattice exploration of one real pool.

use std::sync::Arc;

use serde_json::{Value, json};

use crate::common::{Report, Tier, make_epoch};
use crate::engine::{BfsLimits, BfsStats, bfs};
use crate::pooldrv::*;
use crate::poolsys::*;

fn run_families(report: &Report, fams: Vec<PoolSlotSys>, max_states: usize, secs: u64) -> Value {
    let mut total = BfsStats::default();
    let mut per = Vec::new();
    let mut samples = Vec::new();
    let mut all_exhausted = true;
    for f in &fams {
        let limits = BfsLimits::new(f.ops.len() + 1, max_states, secs);
        let st = bfs(f, &f.name, &limits, report);
        println!(
            "  {}: ops={} states={} transitions={} depth={} outcomes={} capped={:?}",
            f.name, f.ops.len(), st.states, st.transitions, st.depth_completed, st.distinct_outcomes, st.capped
        );
        all_exhausted &= st.frontier_exhausted;
        st.merge_into(&mut total);
        let mut j = st.to_json();
        j["system"] = json!(f.name);
        j["stakes"] = json!(f.epoch.stakes);
        j["own"] = json!(f.own);
        j["alphabet"] = json!(f.ops.iter().map(|o| o.show()).collect::<Vec<_>>());
        per.push(j);
        samples.extend(st.samples.into_iter().take(2));
    }
    json!({
        "states": total.states,
        "transitions": total.transitions,
        "traces_validated_against_impl": total.transitions,
        "replayed_impl_steps": total.replayed_steps,
        "distinct_outcomes": total.distinct_outcomes,
        "exhaustive": all_exhausted,
        "capped": total.capped,
        "bound": "complete delivery lattice (every order, each message at most once, re-delivery probed by the duplicate-refusal oracle) of each listed alphabet",
        "families": per,
        "samples": samples,
        "vacuous": total.distinct_outcomes <= fams.len(),
    })
}

const N: VK = VK::Notar;
const NF: VK = VK::NotarFb;
const S: VK = VK::Skip;
const SF: VK = VK::SkipFb;
const F: VK = VK::Final;

fn cat(parts: Vec<Vec<Op>>) -> Vec<Op> {
    parts.into_iter().flatten().collect()
}

pub fn run_c04(tier: Tier) -> i32 {
    let report = Report::new("C04", tier, "model_checking");
    let e3 = Arc::new(make_epoch(&[1, 1, 1]));
    let mut fams = Vec::new();
    // all seven votes of validator 1 in every order, interleaved with four votes of validator 2
    let one = |v: usize, slot: u64| {
        cat(vec![
            votes(N, slot, 0, &[v]),
            votes(N, slot, 1, &[v]),
            votes(NF, slot, 0, &[v]),
            votes(NF, slot, 1, &[v]),
            votes(S, slot, 0, &[v]),
            votes(SF, slot, 0, &[v]),
            votes(F, slot, 0, &[v]),
        ])
    };
    fams.push(PoolSlotSys::new(
        "one-validator-all-seven-votes",
        e3.clone(),
        0,
        one(1, 1),
        "C04",
    ));
    fams.push(PoolSlotSys::new(
        "own-validator-all-seven-votes",
        e3.clone(),
        0,
        one(0, 1),
        "C04",
    ));
    fams.push(PoolSlotSys::new(
        "two-validators-interleaved",
        e3.clone(),
        0,
        cat(vec![
            one(1, 1),
            votes(N, 1, 0, &[2]),
            votes(S, 1, 0, &[2]),
            votes(F, 1, 0, &[2]),
            votes(NF, 1, 1, &[2]),
        ]),
        "C04",
    ));
    // independence across slots
    fams.push(PoolSlotSys::new(
        "two-slots",
        e3.clone(),
        0,
        cat(vec![
            votes(N, 1, 0, &[1]),
            votes(S, 1, 0, &[1]),
            votes(F, 1, 0, &[1]),
            votes(NF, 1, 0, &[1]),
            votes(N, 2, 0, &[1]),
            votes(N, 2, 1, &[1]),
            votes(S, 2, 0, &[1]),
            votes(F, 2, 0, &[1]),
            votes(SF, 2, 0, &[1]),
        ]),
        "C04",
    ));
    if tier == Tier::Thorough {
        let e5 = Arc::new(make_epoch(&[1, 1, 1, 1, 1]));
        fams.push(PoolSlotSys::new(
            "three-blocks-two-validators",
            e5.clone(),
            0,
            cat(vec![
                one(1, 1),
                votes(N, 1, 2, &[1]),
                votes(NF, 1, 2, &[1]),
                one(2, 1),
            ]),
            "C04",
        ));
    }
    let mut cov = run_families(&report, fams, tier.pick(3_000_000, 40_000_000), tier.pick(50, 800));
    // slot-window bounds (enumerated, E3 style)
    let b = bounds_sweep(&report);
    cov["bounds_sweep_cases"] = json!(b);
    report.finish(cov)
}

/// Votes at the edges of the admissible slot window, after k fast-finalized slots.
fn bounds_sweep(report: &Report) -> usize {
    use alpenglow::types::SLOTS_PER_EPOCH;
    let e3 = Arc::new(make_epoch(&[1, 1, 1]));
    let mut cases = 0;
    for k in 0..=5u64 {
        let mut ops = Vec::new();
        for s in 1..=k {
            ops.push(cert(CK::FastFinal, s, 0, &[0, 1, 2], &[]));
            if s > 1 {
                ops.push(block(s, 0, s - 1, 0));
            }
        }
        let base = ops.len();
        let edge = [
            k.saturating_sub(1),
            k,
            k + 1,
            k + 2 * SLOTS_PER_EPOCH - 1,
            k + 2 * SLOTS_PER_EPOCH,
            k + 2 * SLOTS_PER_EPOCH + 1,
        ];
        for s in edge {
            for kind in [N, S, F, NF, SF] {
                ops.push(Op::Vote(VoteSpec { kind, slot: s, blk: 0, signer: 1 }));
            }
        }
        let sys = PoolSlotSys::new(&format!("bounds-k{k}"), e3.clone(), 0, ops.clone(), "C04");
        use crate::engine::Sys;
        for probe in base..ops.len() {
            let mut w = sys.init();
            for a in 0..base {
                sys.step(&mut w, a as u16, false);
            }
            let o = sys.step(&mut w, probe as u16, true);
            cases += 1;
            for (key, what) in o.violations {
                report.violation(key, what, json!({"finalized_prefix": k, "probe": ops[probe].show()}));
            }
        }
    }
    cases
}

pub fn run_c03(tier: Tier) -> i32 {
    let report = Report::new("C03", tier, "model_checking");
    let mut fams = Vec::new();
    let e3 = Arc::new(make_epoch(&[1, 1, 1]));
    let t5 = Arc::new(make_epoch(&[1, 1, 1, 1, 1]));
    let t4 = Arc::new(make_epoch(&[1, 1, 1, 2]));
    let k4 = Arc::new(make_epoch(&[19, 27, 27, 27]));
    let x3 = Arc::new(make_epoch(&[10, 45, 45]));
    fams.push(PoolSlotSys::new(
        "E3-all-kinds",
        e3.clone(),
        0,
        cat(vec![
            votes(N, 1, 0, &[0, 1, 2]),
            votes(N, 1, 1, &[2]),
            votes(NF, 1, 0, &[1, 2]),
            votes(S, 1, 0, &[0, 1, 2]),
            votes(SF, 1, 0, &[1]),
            votes(F, 1, 0, &[0, 1, 2]),
        ]),
        "C03",
    ));
    fams.push(PoolSlotSys::new(
        "T5-exact-thresholds",
        t5.clone(),
        0,
        cat(vec![
            votes(N, 1, 0, &[0, 1, 2, 3, 4]),
            votes(NF, 1, 0, &[3, 4]),
            votes(S, 1, 0, &[3]),
            votes(SF, 1, 0, &[4, 2]),
            votes(F, 1, 0, &[0, 1, 2]),
        ]),
        "C03",
    ));
    fams.push(PoolSlotSys::new(
        "X3-received-certs",
        x3.clone(),
        0,
        cat(vec![
            votes(N, 1, 0, &[1, 2]),
            votes(NF, 1, 0, &[0]),
            votes(S, 1, 0, &[0]),
            votes(SF, 1, 0, &[2]),
            votes(F, 1, 0, &[1, 2]),
            vec![
                cert(CK::Notar, 1, 0, &[1, 2], &[]),
                cert(CK::FastFinal, 1, 0, &[1, 2], &[]),
                cert(CK::NotarFb, 1, 0, &[1], &[2]),
                cert(CK::Skip, 1, 0, &[1], &[2]),
                cert(CK::Final, 1, 0, &[1, 2], &[]),
            ],
        ]),
        "C03",
    ));
    fams.push(PoolSlotSys::new(
        "T4-unequal-two-slots",
        t4.clone(),
        3,
        cat(vec![
            votes(N, 1, 0, &[0, 1, 3]),
            votes(N, 1, 1, &[2]),
            votes(NF, 1, 0, &[2]),
            votes(F, 1, 0, &[0, 3]),
            votes(S, 2, 0, &[0, 1, 2]),
            votes(SF, 2, 0, &[3]),
            votes(N, 2, 0, &[3]),
        ]),
        "C03",
    ));
    // two competing blocks: one gets a notarization certificate (by votes or received), the other
    // reaches its notar-fallback threshold on a notar vote, a fallback vote, in every order
    let w3 = Arc::new(make_epoch(&[40, 30, 30]));
    fams.push(PoolSlotSys::new(
        "W3-two-blocks-cross-certificates",
        w3.clone(),
        1,
        cat(vec![
            votes(N, 1, 0, &[0, 1]),
            votes(N, 1, 1, &[2]),
            votes(NF, 1, 1, &[0, 1]),
            votes(NF, 1, 0, &[2]),
            vec![cert(CK::Notar, 1, 0, &[0, 1], &[])],
        ]),
        "C03",
    ));
    if tier == Tier::Thorough {
        fams.push(PoolSlotSys::new(
            "K4-tight",
            k4.clone(),
            1,
            cat(vec![
                votes(N, 1, 0, &[0, 1, 2, 3]),
                votes(N, 1, 1, &[0]),
                votes(NF, 1, 0, &[0, 3]),
                votes(NF, 1, 1, &[1, 2]),
                votes(S, 1, 0, &[0, 1, 2, 3]),
                votes(SF, 1, 0, &[1, 2]),
                votes(F, 1, 0, &[1, 2, 3]),
            ]),
            "C03",
        ));
        fams.push(PoolSlotSys::new(
            "T5-two-blocks",
            t5.clone(),
            4,
            cat(vec![
                votes(N, 1, 0, &[0, 1, 2]),
                votes(N, 1, 1, &[3, 4]),
                votes(NF, 1, 0, &[3, 4]),
                votes(NF, 1, 1, &[0, 1, 2]),
                votes(S, 1, 0, &[0, 3]),
                votes(SF, 1, 0, &[1, 4]),
                votes(F, 1, 0, &[0, 1, 2]),
                vec![cert(CK::NotarFb, 1, 1, &[3, 4], &[0]), cert(CK::Skip, 1, 0, &[0, 3], &[1])],
            ]),
            "C03",
        ));
    }
    let cov = run_families(&report, fams, tier.pick(3_000_000, 60_000_000), tier.pick(50, 850));
    report.finish(cov)
}

pub fn run_c06(tier: Tier) -> i32 {
    let report = Report::new("C06", tier, "model_checking");
    let mut fams = Vec::new();
    let t5 = Arc::new(make_epoch(&[1, 1, 1, 1, 1]));
    let e3 = Arc::new(make_epoch(&[1, 1, 1]));
    let x3 = Arc::new(make_epoch(&[10, 45, 45]));
    let k4 = Arc::new(make_epoch(&[19, 27, 27, 27]));
    // parent (1,0) certified by received cert or by votes; two children a,b of the same parent in slot 2
    fams.push(PoolSlotSys::new(
        "T5-two-children-parent-by-cert",
        t5.clone(),
        0,
        cat(vec![
            votes(N, 2, 0, &[1, 2]),
            votes(N, 2, 1, &[3]),
            votes(S, 2, 0, &[4]),
            votes(S, 2, 0, &[0]),
            votes(N, 2, 1, &[0]),
            vec![block(2, 0, 1, 0), block(2, 1, 1, 0)],
            vec![
                cert(CK::Notar, 1, 0, &[1, 2, 3], &[]),
                cert(CK::FastFinal, 1, 0, &[1, 2, 3, 4], &[]),
                cert(CK::NotarFb, 1, 0, &[1, 2], &[3]),
            ],
        ]),
        "C06",
    ));
    fams.push(PoolSlotSys::new(
        "T5-parent-by-votes-own-vote-last",
        t5.clone(),
        0,
        cat(vec![
            votes(N, 1, 0, &[1, 2, 3]),
            votes(N, 2, 0, &[1, 2]),
            votes(N, 2, 1, &[3, 4]),
            votes(N, 2, 0, &[0]),
            votes(N, 2, 1, &[0]),
            votes(S, 2, 0, &[0]),
            vec![block(2, 0, 1, 0), block(2, 1, 1, 0)],
        ]),
        "C06",
    ));
    fams.push(PoolSlotSys::new(
        "X3-thresholds-from-below",
        x3.clone(),
        0,
        cat(vec![
            votes(N, 2, 0, &[1]),
            votes(N, 2, 1, &[2]),
            votes(S, 2, 0, &[2]),
            votes(N, 2, 0, &[0]),
            votes(N, 2, 1, &[0]),
            votes(S, 2, 0, &[0]),
            vec![block(2, 0, 1, 0), block(2, 1, 1, 0)],
            vec![cert(CK::Notar, 1, 0, &[1, 2], &[]), cert(CK::FastFinal, 1, 0, &[1, 2], &[])],
        ]),
        "C06",
    ));
    fams.push(PoolSlotSys::new(
        "E3-genesis-parent-and-skip-fallback",
        e3.clone(),
        0,
        cat(vec![
            votes(N, 1, 0, &[0, 1]),
            votes(N, 1, 1, &[2]),
            votes(S, 1, 0, &[2]),
            votes(S, 1, 0, &[0]),
            votes(N, 1, 1, &[0]),
            votes(SF, 1, 0, &[1]),
            vec![block(1, 0, 0, 0), block(1, 1, 0, 0)],
        ]),
        "C06",
    ));
    if tier == Tier::Thorough {
        fams.push(PoolSlotSys::new(
            "K4-20-40-60-boundaries",
            k4.clone(),
            1,
            cat(vec![
                votes(N, 2, 0, &[0, 2]),
                votes(N, 2, 1, &[3]),
                votes(S, 2, 0, &[0, 2, 3]),
                votes(N, 2, 1, &[1]),
                votes(S, 2, 0, &[1]),
                votes(N, 2, 0, &[1]),
                vec![block(2, 0, 1, 0), block(2, 1, 1, 1)],
                vec![
                    cert(CK::Notar, 1, 0, &[1, 2, 3], &[]),
                    cert(CK::NotarFb, 1, 1, &[1], &[2, 3]),
                ],
            ]),
            "C06",
        ));
        fams.push(PoolSlotSys::new(
            "T5-three-blocks-children-across-slots",
            t5.clone(),
            0,
            cat(vec![
                votes(N, 2, 0, &[1, 2]),
                votes(N, 2, 1, &[3]),
                votes(N, 2, 2, &[4]),
                votes(S, 2, 0, &[0]),
                votes(N, 3, 0, &[1, 2]),
                votes(S, 3, 0, &[0]),
                vec![block(2, 0, 1, 0), block(2, 1, 1, 0), block(3, 0, 1, 0)],
                votes(N, 1, 0, &[1, 2, 3]),
                vec![cert(CK::FastFinal, 1, 0, &[1, 2, 3, 4], &[])],
            ]),
            "C06",
        ));
    }
    let cov = run_families(&report, fams, tier.pick(3_000_000, 60_000_000), tier.pick(50, 850));
    report.finish(cov)
}
