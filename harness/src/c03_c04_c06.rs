//! C03 / C04 / C06: exhaustive delivery-lattice exploration of one real pool.

use std::sync::Arc;

use serde_json::{Value, json};

use crate::common::{Report, Tier, make_epoch};
use crate::engine::{BfsLimits, BfsStats, bfs};
use crate::pooldrv::*;
use crate::poolsys::*;

fn run_families(report: &Report, fams: Vec<PoolSlotSys>, max_states: usize, secs: u64) -> Value {
    let mut total = BfsStats::default();
    let mut per = Vec::new();
    let mut samples = Vec::new();
    let mut all_exhausted = true;
    for f in &fams {
        let limits = BfsLimits::new(f.ops.len() + 1, max_states, secs);
        let st = bfs(f, &f.name, &limits, report);
        println!(
            "  {}: ops={} states={} transitions={} depth={} outcomes={} capped={:?}",
            f.name, f.ops.len(), st.states, st.transitions, st.depth_completed, st.distinct_outcomes, st.capped
        );
        all_exhausted &= st.frontier_exhausted;
        st.merge_into(&mut total);
        let mut j = st.to_json();
        j["system"] = json!(f.name);
        j["stakes"] = json!(f.epoch.stakes);
        j["own"] = json!(f.own);
        j["alphabet"] = json!(f.ops.iter().map(|o| o.show()).collect::<Vec<_>>());
        per.push(j);
        samples.extend(st.samples.into_iter().take(2));
    }
    json!({
        "states": total.states,
        "transitions": total.transitions,
        "traces_validated_against_impl": total.transitions,
        "replayed_impl_steps": total.replayed_steps,
        "distinct_outcomes": total.distinct_outcomes,
        "exhaustive": all_exhausted,
        "capped": total.capped,
        "bound": "complete delivery lattice (every order, each message at most once, re-delivery probed by the duplicate-refusal oracle) of each listed alphabet",
        "families": per,
        "samples": samples,
        "vacuous": total.distinct_outcomes <= fams.len(),
    })
}

/// Runs a generated (large) list of small families to closure and aggregates the statistics.
fn run_generated(report: &Report, label: &str, fams: Vec<PoolSlotSys>, deadline_secs: u64) -> Value {
    let started = std::time::Instant::now();
    let mut total = BfsStats::default();
    let mut done = 0usize;
    let mut capped = None;
    let mut sample = Value::Null;
    for f in &fams {
        if started.elapsed().as_secs() > deadline_secs {
            capped = Some(format!("wall clock after {done} of {} generated families", fams.len()));
            break;
        }
        let limits = BfsLimits::new(f.ops.len() + 1, 2_000_000, 120);
        let st = bfs(f, &f.name, &limits, report);
        if st.capped.is_some() && capped.is_none() {
            capped = st.capped.clone();
        }
        if done == fams.len() / 2 {
            sample = json!({"system": f.name, "alphabet": f.ops.iter().map(|o| o.show()).collect::<Vec<_>>(), "states": st.states});
        }
        st.merge_into(&mut total);
        done += 1;
    }
    println!("  {label}: generated families={} explored to closure={} states={} transitions={} outcomes={} capped={:?}", fams.len(), done, total.states, total.transitions, total.distinct_outcomes, capped);
    json!({"system": label, "generated_families": fams.len(), "families_explored_to_closure": done, "states": total.states, "transitions": total.transitions, "distinct_outcomes": total.distinct_outcomes, "capped": capped, "sample_family": sample})
}

/// C06, systematic: every assignment of a slot-2 vote {none, notar a, notar b, skip} to every
/// validator (own id 0 included), two children a, b of one parent, the parent certified by a
/// received notarization / fast-final certificate or by votes.
fn generated_c06(stakes: &[u64], tag: &str, stride: usize) -> Vec<PoolSlotSys> {
    let n = stakes.len();
    let epoch = Arc::new(make_epoch(stakes));
    // smallest set of non-own validators reaching 60 % / 80 %
    let pick = |num: u128, den: u128| -> Vec<usize> {
        let total: u128 = stakes.iter().map(|s| *s as u128).sum();
        let mut v = Vec::new();
        let mut acc = 0u128;
        for i in 1..n {
            if acc * den >= total * num {
                break;
            }
            v.push(i);
            acc += stakes[i] as u128;
        }
        if acc * den >= total * num { v } else { (0..n).collect() }
    };
    let q60 = pick(3, 5);
    let q80 = pick(4, 5);
    let mut out = Vec::new();
    let mut idx = 0usize;
    for code in 0..4usize.pow(n as u32) {
        let assign: Vec<usize> = (0..n).map(|i| code / 4usize.pow(i as u32) % 4).collect();
        // the signals concern the node's own vote: skip assignments in which it never votes
        if assign[0] == 0 {
            continue;
        }
        for mode in ["parent-notar-cert", "parent-by-votes", "parent-fast-final-cert", "two-parents-certified-one-after-the-other"] {
            idx += 1;
            if idx % stride != 0 {
                continue;
            }
            let mut ops = Vec::new();
            for (i, a) in assign.iter().enumerate() {
                match a {
                    1 => ops.extend(votes(N, 2, 0, &[i])),
                    2 => ops.extend(votes(N, 2, 1, &[i])),
                    3 => ops.extend(votes(S, 2, 0, &[i])),
                    _ => {}
                }
            }
            ops.push(block(2, 0, 1, 0));
            if mode == "two-parents-certified-one-after-the-other" {
                // the parent slot was equivocated: child a sits on block (1,a), child b on block (1,b);
                // (1,a) gets a notarization certificate, (1,b) a notar-fallback certificate
                ops.push(block(2, 1, 1, 1));
                ops.push(cert(CK::Notar, 1, 0, &q60, &[]));
                let (first, rest) = q60.split_at(1);
                ops.push(cert(CK::NotarFb, 1, 1, first, rest));
            } else {
                ops.push(block(2, 1, 1, 0));
            }
            match mode {
                "parent-notar-cert" => ops.push(cert(CK::Notar, 1, 0, &q60, &[])),
                "parent-by-votes" => ops.extend(votes(N, 1, 0, &q60)),
                "parent-fast-final-cert" => ops.push(cert(CK::FastFinal, 1, 0, &q80, &[])),
                _ => {}
            }
            let name = format!("gen-{tag}-{}-{mode}", assign.iter().map(|a| ["-", "a", "b", "s"][*a]).collect::<String>());
            out.push(PoolSlotSys::new(&name, epoch.clone(), 0, ops, "C06"));
        }
    }
    out
}

/// C03, systematic: every assignment of one of ten vote sets to every validator of a small stake
/// vector in one slot with two blocks (conflicting combinations included; refused votes simply do
/// not count), every delivery order.
fn generated_c03(stakes: &[u64], tag: &str, stride: usize) -> Vec<PoolSlotSys> {
    let n = stakes.len();
    let epoch = Arc::new(make_epoch(stakes));
    let menu: Vec<(&str, Vec<(VK, u8)>)> = vec![
        ("-", vec![]),
        ("Na", vec![(N, 0)]),
        ("Nb", vec![(N, 1)]),
        ("S", vec![(S, 0)]),
        ("NaF", vec![(N, 0), (F, 0)]),
        ("NaNFb", vec![(N, 0), (NF, 1)]),
        ("NbNFa", vec![(N, 1), (NF, 0)]),
        ("SSF", vec![(S, 0), (SF, 0)]),
        ("SNFa", vec![(S, 0), (NF, 0)]),
        ("NaSF", vec![(N, 0), (SF, 0)]),
    ];
    let m = menu.len();
    let mut out = Vec::new();
    let mut idx = 0usize;
    for code in 0..m.pow(n as u32) {
        let assign: Vec<usize> = (0..n).map(|i| code / m.pow(i as u32) % m).collect();
        let nvotes: usize = assign.iter().map(|a| menu[*a].1.len()).sum();
        if nvotes < 2 || nvotes > 7 {
            continue;
        }
        idx += 1;
        if idx % stride != 0 {
            continue;
        }
        let mut ops = Vec::new();
        for (i, a) in assign.iter().enumerate() {
            for (k, b) in &menu[*a].1 {
                ops.extend(votes(*k, 1, *b, &[i]));
            }
        }
        let name = format!("gen-{tag}-{}", assign.iter().map(|a| menu[*a].0).collect::<Vec<_>>().join("."));
        out.push(PoolSlotSys::new(&name, epoch.clone(), n - 1, ops, "C03"));
    }
    out
}

const N: VK = VK::Notar;
const NF: VK = VK::NotarFb;
const S: VK = VK::Skip;
const SF: VK = VK::SkipFb;
const F: VK = VK::Final;

fn cat(parts: Vec<Vec<Op>>) -> Vec<Op> {
    parts.into_iter().flatten().collect()
}

pub fn run_c04(tier: Tier) -> i32 {
    let report = Report::new("C04", tier, "model_checking");
    let e3 = Arc::new(make_epoch(&[1, 1, 1]));
    let mut fams = Vec::new();
    // all seven votes of validator 1 in every order, interleaved with four votes of validator 2
    let one = |v: usize, slot: u64| {
        cat(vec![
            votes(N, slot, 0, &[v]),
            votes(N, slot, 1, &[v]),
            votes(NF, slot, 0, &[v]),
            votes(NF, slot, 1, &[v]),
            votes(S, slot, 0, &[v]),
            votes(SF, slot, 0, &[v]),
            votes(F, slot, 0, &[v]),
        ])
    };
    fams.push(PoolSlotSys::new(
        "one-validator-all-seven-votes",
        e3.clone(),
        0,
        one(1, 1),
        "C04",
    ));
    fams.push(PoolSlotSys::new(
        "own-validator-all-seven-votes",
        e3.clone(),
        0,
        one(0, 1),
        "C04",
    ));
    fams.push(PoolSlotSys::new(
        "two-validators-interleaved",
        e3.clone(),
        0,
        cat(vec![
            one(1, 1),
            votes(N, 1, 0, &[2]),
            votes(S, 1, 0, &[2]),
            votes(F, 1, 0, &[2]),
            votes(NF, 1, 1, &[2]),
        ]),
        "C04",
    ));
    // independence across slots
    fams.push(PoolSlotSys::new(
        "two-slots",
        e3.clone(),
        0,
        cat(vec![
            votes(N, 1, 0, &[1]),
            votes(S, 1, 0, &[1]),
            votes(F, 1, 0, &[1]),
            votes(NF, 1, 0, &[1]),
            votes(N, 2, 0, &[1]),
            votes(N, 2, 1, &[1]),
            votes(S, 2, 0, &[1]),
            votes(F, 2, 0, &[1]),
            votes(SF, 2, 0, &[1]),
        ]),
        "C04",
    ));
    // a later slot is finalized (certificate only, no parent link) while slot 1 is still undecided:
    // what was accepted in slot 1 must not be forgotten - exact repeats (listed twice) and conflicts
    fams.push(PoolSlotSys::new(
        "later-slot-finalized-while-slot-1-undecided",
        e3.clone(),
        0,
        cat(vec![
            votes(N, 1, 0, &[1]),
            votes(N, 1, 0, &[1]),
            votes(S, 1, 0, &[1]),
            votes(F, 1, 0, &[1]),
            votes(S, 1, 0, &[2]),
            votes(S, 1, 0, &[2]),
            votes(N, 1, 1, &[2]),
            vec![cert(CK::FastFinal, 2, 0, &[0, 1, 2], &[]), cert(CK::FastFinal, 3, 0, &[0, 1, 2], &[])],
        ]),
        "C04",
    ));
    // votes that arrive after the block they concern is already certified (by votes or by a
    // received certificate): still recorded, repeated -> Duplicate, conflicting -> Slashable
    let t5 = Arc::new(make_epoch(&[1, 1, 1, 1, 1]));
    fams.push(PoolSlotSys::new(
        "T5-votes-after-certification",
        t5.clone(),
        0,
        cat(vec![
            votes(N, 1, 0, &[1, 2, 3]),
            votes(S, 1, 0, &[4]),
            votes(NF, 1, 0, &[4]),
            votes(F, 1, 0, &[4]),
            votes(SF, 1, 0, &[3]),
            vec![cert(CK::NotarFb, 1, 0, &[1, 2], &[4]), cert(CK::Skip, 1, 0, &[4], &[1, 3])],
        ]),
        "C04",
    ));
    // four competing blocks in one slot: the most a correct validator ever casts is its initial vote
    // (notar or skip) plus notar-fallback votes for three other blocks - in every order
    fams.push(PoolSlotSys::new(
        "four-blocks-notar-plus-three-fallbacks",
        t5.clone(),
        0,
        cat(vec![votes(N, 1, 0, &[1]), votes(NF, 1, 1, &[1]), votes(NF, 1, 2, &[1]), votes(NF, 1, 3, &[1]), votes(NF, 1, 3, &[1]), votes(NF, 1, 3, &[2])]),
        "C04",
    ));
    fams.push(PoolSlotSys::new(
        "four-blocks-skip-plus-three-fallbacks",
        t5.clone(),
        0,
        cat(vec![votes(S, 1, 0, &[1]), votes(NF, 1, 1, &[1]), votes(NF, 1, 2, &[1]), votes(NF, 1, 3, &[1]), votes(N, 1, 0, &[2]), votes(NF, 1, 3, &[2])]),
        "C04",
    ));
    if tier == Tier::Thorough {
        let e5 = Arc::new(make_epoch(&[1, 1, 1, 1, 1]));
        fams.push(PoolSlotSys::new(
            "three-blocks-two-validators",
            e5.clone(),
            0,
            cat(vec![
                one(1, 1),
                votes(N, 1, 2, &[1]),
                votes(NF, 1, 2, &[1]),
                one(2, 1),
            ]),
            "C04",
        ));
    }
    let mut cov = run_families(&report, fams, tier.pick(3_000_000, 40_000_000), tier.pick(50, 800));
    // slot-window bounds (enumerated, E3 style)
    let b = bounds_sweep(&report);
    cov["bounds_sweep_cases"] = json!(b);
    report.finish(cov)
}

/// Votes at the edges of the admissible slot window, after k fast-finalized slots.
fn bounds_sweep(report: &Report) -> usize {
    use alpenglow::types::SLOTS_PER_EPOCH;
    let e3 = Arc::new(make_epoch(&[1, 1, 1]));
    let mut cases = 0;
    for k in 0..=5u64 {
        let mut ops = Vec::new();
        for s in 1..=k {
            ops.push(cert(CK::FastFinal, s, 0, &[0, 1, 2], &[]));
            if s > 1 {
                ops.push(block(s, 0, s - 1, 0));
            }
        }
        let base = ops.len();
        let edge = [
            k.saturating_sub(1),
            k,
            k + 1,
            k + 2 * SLOTS_PER_EPOCH - 1,
            k + 2 * SLOTS_PER_EPOCH,
            k + 2 * SLOTS_PER_EPOCH + 1,
        ];
        for s in edge {
            for kind in [N, S, F, NF, SF] {
                ops.push(Op::Vote(VoteSpec { kind, slot: s, blk: 0, signer: 1 }));
            }
        }
        let sys = PoolSlotSys::new(&format!("bounds-k{k}"), e3.clone(), 0, ops.clone(), "C04");
        use crate::engine::Sys;
        for probe in base..ops.len() {
            let mut w = sys.init();
            for a in 0..base {
                sys.step(&mut w, a as u16, false);
            }
            let o = sys.step(&mut w, probe as u16, true);
            cases += 1;
            for (key, what) in o.violations {
                report.violation(key, what, json!({"finalized_prefix": k, "probe": ops[probe].show()}));
            }
        }
    }
    cases
}

pub fn run_c03(tier: Tier) -> i32 {
    let report = Report::new("C03", tier, "model_checking");
    let mut fams = Vec::new();
    let e3 = Arc::new(make_epoch(&[1, 1, 1]));
    let t5 = Arc::new(make_epoch(&[1, 1, 1, 1, 1]));
    let t4 = Arc::new(make_epoch(&[1, 1, 1, 2]));
    let k4 = Arc::new(make_epoch(&[19, 27, 27, 27]));
    let x3 = Arc::new(make_epoch(&[10, 45, 45]));
    fams.push(PoolSlotSys::new(
        "E3-all-kinds",
        e3.clone(),
        0,
        cat(vec![
            votes(N, 1, 0, &[0, 1, 2]),
            votes(N, 1, 1, &[2]),
            votes(NF, 1, 0, &[1, 2]),
            votes(S, 1, 0, &[0, 1, 2]),
            votes(SF, 1, 0, &[1]),
            votes(F, 1, 0, &[0, 1, 2]),
        ]),
        "C03",
    ));
    fams.push(PoolSlotSys::new(
        "T5-exact-thresholds",
        t5.clone(),
        0,
        cat(vec![
            votes(N, 1, 0, &[0, 1, 2, 3, 4]),
            votes(NF, 1, 0, &[3, 4]),
            votes(S, 1, 0, &[3]),
            votes(SF, 1, 0, &[4, 2]),
            votes(F, 1, 0, &[0, 1, 2]),
        ]),
        "C03",
    ));
    fams.push(PoolSlotSys::new(
        "X3-received-certs",
        x3.clone(),
        0,
        cat(vec![
            votes(N, 1, 0, &[1, 2]),
            votes(NF, 1, 0, &[0]),
            votes(S, 1, 0, &[0]),
            votes(SF, 1, 0, &[2]),
            votes(F, 1, 0, &[1, 2]),
            vec![
                cert(CK::Notar, 1, 0, &[1, 2], &[]),
                cert(CK::FastFinal, 1, 0, &[1, 2], &[]),
                cert(CK::NotarFb, 1, 0, &[1], &[2]),
                cert(CK::Skip, 1, 0, &[1], &[2]),
                cert(CK::Final, 1, 0, &[1, 2], &[]),
            ],
        ]),
        "C03",
    ));
    fams.push(PoolSlotSys::new(
        "T4-unequal-two-slots",
        t4.clone(),
        3,
        cat(vec![
            votes(N, 1, 0, &[0, 1, 3]),
            votes(N, 1, 1, &[2]),
            votes(NF, 1, 0, &[2]),
            votes(F, 1, 0, &[0, 3]),
            votes(S, 2, 0, &[0, 1, 2]),
            votes(SF, 2, 0, &[3]),
            votes(N, 2, 0, &[3]),
        ]),
        "C03",
    ));
    // two competing blocks: one gets a notarization certificate (by votes or received), the other
    // reaches its notar-fallback threshold on a notar vote, a fallback vote, in every order
    let w3 = Arc::new(make_epoch(&[40, 30, 30]));
    fams.push(PoolSlotSys::new(
        "W3-two-blocks-cross-certificates",
        w3.clone(),
        1,
        cat(vec![
            votes(N, 1, 0, &[0, 1]),
            votes(N, 1, 1, &[2]),
            votes(NF, 1, 1, &[0, 1]),
            votes(NF, 1, 0, &[2]),
            vec![cert(CK::Notar, 1, 0, &[0, 1], &[])],
        ]),
        "C03",
    ));
    if tier == Tier::Thorough {
        fams.push(PoolSlotSys::new(
            "K4-tight",
            k4.clone(),
            1,
            cat(vec![
                votes(N, 1, 0, &[0, 1, 2, 3]),
                votes(N, 1, 1, &[0]),
                votes(NF, 1, 0, &[0, 3]),
                votes(NF, 1, 1, &[1, 2]),
                votes(S, 1, 0, &[0, 1, 2, 3]),
                votes(SF, 1, 0, &[1, 2]),
                votes(F, 1, 0, &[1, 2, 3]),
            ]),
            "C03",
        ));
        fams.push(PoolSlotSys::new(
            "T5-two-blocks",
            t5.clone(),
            4,
            cat(vec![
                votes(N, 1, 0, &[0, 1, 2]),
                votes(N, 1, 1, &[3, 4]),
                votes(NF, 1, 0, &[3, 4]),
                votes(NF, 1, 1, &[0, 1, 2]),
                votes(S, 1, 0, &[0, 3]),
                votes(SF, 1, 0, &[1, 4]),
                votes(F, 1, 0, &[0, 1, 2]),
                vec![cert(CK::NotarFb, 1, 1, &[3, 4], &[0]), cert(CK::Skip, 1, 0, &[0, 3], &[1])],
            ]),
            "C03",
        ));
    }
    let mut cov = run_families(&report, fams, tier.pick(3_000_000, 60_000_000), tier.pick(50, 850));
    let generated = vec![
        run_generated(&report, "generated/E3-equal", generated_c03(&[1, 1, 1], "E3", tier.pick(5, 1)), tier.pick(10, 300)),
        run_generated(&report, "generated/W3-40-30-30", generated_c03(&[40, 30, 30], "W3", tier.pick(5, 1)), tier.pick(10, 300)),
        run_generated(&report, "generated/K4", generated_c03(&[19, 27, 27, 27], "K4", tier.pick(97, 7)), tier.pick(10, 400)),
    ];
    for g in &generated {
        cov["states"] = json!(cov["states"].as_u64().unwrap_or(0) + g["states"].as_u64().unwrap_or(0));
        cov["transitions"] = json!(cov["transitions"].as_u64().unwrap_or(0) + g["transitions"].as_u64().unwrap_or(0));
        cov["traces_validated_against_impl"] = cov["transitions"].clone();
        if !g["capped"].is_null() {
            cov["exhaustive"] = json!(false);
            cov["capped"] = g["capped"].clone();
        }
    }
    cov["generated_families"] = json!(generated);
    report.finish(cov)
}

pub fn run_c06(tier: Tier) -> i32 {
    let report = Report::new("C06", tier, "model_checking");
    let mut fams = Vec::new();
    let t5 = Arc::new(make_epoch(&[1, 1, 1, 1, 1]));
    let e3 = Arc::new(make_epoch(&[1, 1, 1]));
    let x3 = Arc::new(make_epoch(&[10, 45, 45]));
    let k4 = Arc::new(make_epoch(&[19, 27, 27, 27]));
    // parent (1,0) certified by received cert or by votes; two children a,b of the same parent in slot 2
    fams.push(PoolSlotSys::new(
        "T5-two-children-parent-by-cert",
        t5.clone(),
        0,
        cat(vec![
            votes(N, 2, 0, &[1, 2]),
            votes(N, 2, 1, &[3]),
            votes(S, 2, 0, &[4]),
            votes(S, 2, 0, &[0]),
            votes(N, 2, 1, &[0]),
            vec![block(2, 0, 1, 0), block(2, 1, 1, 0)],
            vec![
                cert(CK::Notar, 1, 0, &[1, 2, 3], &[]),
                cert(CK::FastFinal, 1, 0, &[1, 2, 3, 4], &[]),
                cert(CK::NotarFb, 1, 0, &[1, 2], &[3]),
            ],
        ]),
        "C06",
    ));
    fams.push(PoolSlotSys::new(
        "T5-parent-by-votes-own-vote-last",
        t5.clone(),
        0,
        cat(vec![
            votes(N, 1, 0, &[1, 2, 3]),
            votes(N, 2, 0, &[1, 2]),
            votes(N, 2, 1, &[3, 4]),
            votes(N, 2, 0, &[0]),
            votes(N, 2, 1, &[0]),
            votes(S, 2, 0, &[0]),
            vec![block(2, 0, 1, 0), block(2, 1, 1, 0)],
        ]),
        "C06",
    ));
    // fallback votes in the mix: a validator that notarized b adds a notar-fallback vote for the
    // leading block a, a late notar vote for a follows, then a skip - "the most-voted block's notar
    // stake" must stay the notar stake alone (safe-to-skip is due exactly at 40 %)
    fams.push(PoolSlotSys::new(
        "T5-fallback-votes-for-the-leading-block-before-a-late-notar-vote",
        t5.clone(),
        0,
        cat(vec![votes(N, 1, 0, &[0, 2]), votes(N, 1, 1, &[1]), votes(NF, 1, 0, &[1]), votes(S, 1, 0, &[3]), votes(SF, 1, 0, &[4]), vec![block(1, 0, 0, 0), block(1, 1, 0, 0)]]),
        "C06",
    ));
    fams.push(PoolSlotSys::new(
        "X3-thresholds-from-below",
        x3.clone(),
        0,
        cat(vec![
            votes(N, 2, 0, &[1]),
            votes(N, 2, 1, &[2]),
            votes(S, 2, 0, &[2]),
            votes(N, 2, 0, &[0]),
            votes(N, 2, 1, &[0]),
            votes(S, 2, 0, &[0]),
            vec![block(2, 0, 1, 0), block(2, 1, 1, 0)],
            vec![cert(CK::Notar, 1, 0, &[1, 2], &[]), cert(CK::FastFinal, 1, 0, &[1, 2], &[])],
        ]),
        "C06",
    ));
    fams.push(PoolSlotSys::new(
        "E3-genesis-parent-and-skip-fallback",
        e3.clone(),
        0,
        cat(vec![
            votes(N, 1, 0, &[0, 1]),
            votes(N, 1, 1, &[2]),
            votes(S, 1, 0, &[2]),
            votes(S, 1, 0, &[0]),
            votes(N, 1, 1, &[0]),
            votes(SF, 1, 0, &[1]),
            vec![block(1, 0, 0, 0), block(1, 1, 0, 0)],
        ]),
        "C06",
    ));
    if tier == Tier::Thorough {
        fams.push(PoolSlotSys::new(
            "K4-20-40-60-boundaries",
            k4.clone(),
            1,
            cat(vec![
                votes(N, 2, 0, &[0, 2]),
                votes(N, 2, 1, &[3]),
                votes(S, 2, 0, &[0, 2, 3]),
                votes(N, 2, 1, &[1]),
                votes(S, 2, 0, &[1]),
                votes(N, 2, 0, &[1]),
                vec![block(2, 0, 1, 0), block(2, 1, 1, 1)],
                vec![
                    cert(CK::Notar, 1, 0, &[1, 2, 3], &[]),
                    cert(CK::NotarFb, 1, 1, &[1], &[2, 3]),
                ],
            ]),
            "C06",
        ));
        fams.push(PoolSlotSys::new(
            "T5-three-blocks-children-across-slots",
            t5.clone(),
            0,
            cat(vec![
                votes(N, 2, 0, &[1, 2]),
                votes(N, 2, 1, &[3]),
                votes(N, 2, 2, &[4]),
                votes(S, 2, 0, &[0]),
                votes(N, 3, 0, &[1, 2]),
                votes(S, 3, 0, &[0]),
                vec![block(2, 0, 1, 0), block(2, 1, 1, 0), block(3, 0, 1, 0)],
                votes(N, 1, 0, &[1, 2, 3]),
                vec![cert(CK::FastFinal, 1, 0, &[1, 2, 3, 4], &[])],
            ]),
            "C06",
        ));
    }
    let mut cov = run_families(&report, fams, tier.pick(3_000_000, 60_000_000), tier.pick(50, 850));
    // systematic families (every vote assignment), quick: a thin slice of them
    let generated = vec![
        run_generated(&report, "generated/T5-equal", generated_c06(&[1, 1, 1, 1, 1], "T5", tier.pick(13, 1)), tier.pick(15, 500)),
        run_generated(&report, "generated/K4", generated_c06(&[19, 27, 27, 27], "K4", tier.pick(5, 1)), tier.pick(10, 200)),
        run_generated(&report, "generated/X4-own-heavy", generated_c06(&[41, 20, 20, 19], "X4", tier.pick(5, 1)), tier.pick(10, 200)),
    ];
    for g in &generated {
        cov["states"] = json!(cov["states"].as_u64().unwrap_or(0) + g["states"].as_u64().unwrap_or(0));
        cov["transitions"] = json!(cov["transitions"].as_u64().unwrap_or(0) + g["transitions"].as_u64().unwrap_or(0));
        cov["traces_validated_against_impl"] = cov["transitions"].clone();
        if !g["capped"].is_null() {
            cov["exhaustive"] = json!(false);
            cov["capped"] = g["capped"].clone();
        }
    }
    cov["generated_families"] = json!(generated);
    report.finish(cov)
}
