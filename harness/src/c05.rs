//! C05: a correct node's own votes obey the voting rules under every event order.

use std::sync::Arc;

use serde_json::{Value, json};

use crate::common::{Report, Tier, make_epoch};
use crate::engine::{BfsLimits, BfsStats, bfs};
use crate::nodesys::{NodeAlphabet, NodeSys};
use crate::pooldrv::*;
use crate::poolsys::{cert, votes};

const N: VK = VK::Notar;
const NF: VK = VK::NotarFb;
const S: VK = VK::Skip;
const SF: VK = VK::SkipFb;
const F: VK = VK::Final;

fn cat(parts: Vec<Vec<Op>>) -> Vec<Op> {
    parts.into_iter().flatten().collect()
}

fn b(slot: u64, idx: u8) -> Blk {
    Blk { slot, idx }
}

/// One slot, two competing blocks, every kind of foreign input.
pub fn alpha_slot1() -> NodeAlphabet {
    NodeAlphabet {
        foreign: cat(vec![
            votes(N, 1, 0, &[1, 2]),
            votes(N, 1, 1, &[1, 2]),
            votes(S, 1, 0, &[1, 2]),
            votes(F, 1, 0, &[1]),
            votes(NF, 1, 0, &[1]),
            votes(SF, 1, 0, &[2]),
            vec![
                cert(CK::Notar, 1, 0, &[1, 2], &[]),
                cert(CK::Notar, 1, 1, &[1, 2], &[]),
                cert(CK::Skip, 1, 0, &[1], &[2]),
                cert(CK::NotarFb, 1, 1, &[1], &[2]),
            ],
        ]),
        blocks: vec![(b(1, 0), GENESIS), (b(1, 1), GENESIS)],
        invalid: vec![1],
        first_shreds: vec![1],
        windows: vec![0],
        forge: vec![],
    }
}

/// Slots 1-2: parent rule inside a window, blocks before parents, pending blocks.
pub fn alpha_slots12() -> NodeAlphabet {
    NodeAlphabet {
        foreign: cat(vec![
            votes(N, 1, 0, &[1]),
            votes(N, 1, 1, &[2]),
            votes(S, 1, 0, &[1, 2]),
            votes(N, 2, 0, &[1, 2]),
            votes(S, 2, 0, &[1]),
            vec![
                cert(CK::Notar, 1, 0, &[1, 2], &[]),
                cert(CK::NotarFb, 1, 1, &[1], &[2]),
                cert(CK::Notar, 2, 0, &[1, 2], &[]),
                cert(CK::Notar, 2, 1, &[1, 2], &[]),
            ],
        ]),
        blocks: vec![(b(1, 0), GENESIS), (b(1, 1), GENESIS), (b(2, 0), b(1, 0)), (b(2, 1), b(1, 1)), (b(2, 2), GENESIS)],
        invalid: vec![2],
        first_shreds: vec![],
        windows: vec![0],
        forge: vec![],
    }
}

/// Window boundary: slots 3,4,5 with ParentReady paths (notar of 3, skip of 3, notar-fallback).
pub fn alpha_boundary() -> NodeAlphabet {
    NodeAlphabet {
        foreign: vec![
            cert(CK::Skip, 1, 0, &[1], &[2]),
            cert(CK::Skip, 2, 0, &[1], &[2]),
            cert(CK::Skip, 3, 0, &[1], &[2]),
            cert(CK::Notar, 3, 0, &[1, 2], &[]),
            cert(CK::NotarFb, 3, 1, &[1], &[2]),
            cert(CK::Notar, 4, 0, &[1, 2], &[]),
            cert(CK::Notar, 4, 1, &[1, 2], &[]),
            cert(CK::FastFinal, 4, 0, &[1, 2], &[]),
            cert(CK::Final, 4, 0, &[1, 2], &[]),
            cert(CK::Skip, 4, 0, &[1], &[2]),
        ],
        blocks: vec![
            (b(3, 0), GENESIS),
            (b(4, 0), b(3, 0)),
            (b(4, 1), b(3, 1)),
            (b(4, 2), GENESIS),
            (b(5, 0), b(4, 0)),
            (b(5, 1), b(4, 1)),
        ],
        // InvalidBlock for the window's first slot and for a later slot of the same window
        invalid: vec![4, 5],
        first_shreds: vec![4],
        windows: vec![0, 4],
        forge: vec![],
    }
}

/// Fallback paths in slot 1 with exact thresholds (one foreign vote = 45%).
pub fn alpha_fallbacks() -> NodeAlphabet {
    NodeAlphabet {
        foreign: cat(vec![
            votes(N, 1, 0, &[1, 2]),
            votes(N, 1, 1, &[1]),
            votes(S, 1, 0, &[1, 2]),
            vec![cert(CK::Notar, 1, 0, &[1, 2], &[]), cert(CK::Notar, 1, 1, &[1, 2], &[])],
        ]),
        blocks: vec![(b(1, 0), GENESIS), (b(1, 1), GENESIS)],
        invalid: vec![],
        first_shreds: vec![],
        windows: vec![0],
        forge: vec![],
    }
}

/// The node has notarized a chain through window 0; events around the hand-over into window 1.
/// Blocks 0..2 are the chain 1 <- 2 <- 3 (delivered as a prefix), then the window-1 blocks.
pub fn alpha_handover() -> NodeAlphabet {
    NodeAlphabet {
        foreign: vec![
            cert(CK::Notar, 3, 0, &[1, 2], &[]),
            cert(CK::Notar, 2, 0, &[1, 2], &[]),
            cert(CK::Skip, 3, 0, &[1], &[2]),
            cert(CK::NotarFb, 3, 1, &[1], &[2]),
            cert(CK::Notar, 4, 0, &[1, 2], &[]),
            cert(CK::Skip, 4, 0, &[1], &[2]),
            cert(CK::FastFinal, 3, 0, &[1, 2], &[]),
            // late skip votes of a validator that timed out in slots the node notarized (45 %)
            Op::Vote(VoteSpec { kind: VK::Skip, slot: 3, blk: 0, signer: 1 }),
            Op::Vote(VoteSpec { kind: VK::Skip, slot: 2, blk: 0, signer: 1 }),
        ],
        blocks: vec![
            (b(1, 0), GENESIS),
            (b(2, 0), b(1, 0)),
            (b(3, 0), b(2, 0)),
            (b(4, 0), b(3, 0)),
            (b(4, 1), b(3, 1)),
            (b(4, 2), b(2, 0)),
            (b(5, 0), b(4, 0)),
            (b(3, 1), b(2, 0)),
        ],
        // InvalidBlock for the window's first slot and for a later slot of the same window
        invalid: vec![4, 5],
        first_shreds: vec![4],
        windows: vec![0, 4],
        forge: vec![],
    }
}

pub fn run(tier: Tier) -> i32 {
    let report = Report::new("C05", tier, "model_checking");
    let x3 = Arc::new(make_epoch(&[10, 45, 45]));
    let mut systems = vec![
        NodeSys::new("slot1-two-blocks-all-inputs", x3.clone(), 0, alpha_slot1(), 0),
        NodeSys::new("slots1-2-parent-rule", x3.clone(), 0, alpha_slots12(), 0),
        NodeSys::new("window-boundary-3-4-5", x3.clone(), 0, alpha_boundary(), 0),
        NodeSys::new("slot1-fallbacks-lag2", x3.clone(), 0, alpha_fallbacks(), 2),
        NodeSys::new("slot1-fallbacks-no-lag", x3.clone(), 0, alpha_fallbacks(), 0),
    ];
    {
        // seed state: blocks of slots 1, 2, 3 arrived in order (the node notarized the chain)
        let mut hs = NodeSys::new("handover-after-notarizing-window-0", x3.clone(), 0, alpha_handover(), 0);
        let first_block = hs.alpha.foreign.len() as u16;
        hs.prefix = vec![first_block, first_block + 1, first_block + 2];
        systems.push(hs);
        if tier == Tier::Thorough {
            let mut hs = NodeSys::new("handover-after-notarizing-window-0-lag1", x3.clone(), 0, alpha_handover(), 1);
            hs.prefix = vec![first_block, first_block + 1, first_block + 2];
            systems.push(hs);
        }
    }
    {
        // the node's initial vote in slot 1 was skip (its timeouts fired, the skip vote is in its pool);
        // the block and the others' votes arrive afterwards
        use crate::engine::Sys;
        let mut ts = NodeSys::new("slot1-fallbacks-after-own-timeout", x3.clone(), 0, alpha_fallbacks(), 0);
        let n = ts.num_actions() as u16;
        let timer = (0..n).find(|a| ts.describe(*a).contains("next timeout of window 0")).expect("timer action");
        let loop0 = (0..n).find(|a| ts.describe(*a).contains("deliver own broadcast #0 ")).expect("loop-back action");
        ts.prefix = vec![timer, timer, timer, loop0];
        systems.push(ts);
    }
    if tier == Tier::Thorough {
        systems.push(NodeSys::new("slot1-two-blocks-all-inputs-lag2", x3.clone(), 0, alpha_slot1(), 2));
        systems.push(NodeSys::new("window-boundary-3-4-5-lag1", x3.clone(), 0, alpha_boundary(), 1));
    }
    let depth = tier.pick(6, 9);
    // quick: depth bounds chosen so that every system completes its bound (deterministic coverage)
    let quick_depth = |name: &str| if name.contains("no-lag") { 7 } else if name.contains("after-own-timeout") { 5 } else if name.contains("fallbacks") { 6 } else { 4 };
    let per_secs = tier.pick(14, 140);
    let mut total = BfsStats::default();
    let mut per = Vec::new();
    let mut samples: Vec<Value> = Vec::new();
    let mut exhaustive_to_depth = true;
    if let Ok(spec) = std::env::var("C05_REPLAY") {
        // debugging aid: C05_REPLAY="<system name part>:<a,b,c>" runs the schedule twice and prints partial digests
        use crate::engine::Sys;
        use std::hash::Hasher;
        let (name, acts) = spec.split_once(':').unwrap();
        let sys = systems.iter().find(|s| s.name.contains(name)).unwrap();
        for run in 0..2 {
            let mut w = sys.init();
            for a in acts.split(',').filter(|x| !x.is_empty()) {
                let a: u16 = a.parse().unwrap();
                let o = sys.step(&mut w, a, true);
                if run == 0 {
                    println!("step {} -> {:?}", sys.describe(a), o.violations.iter().map(|v| &v.0).collect::<Vec<_>>());
                }
            }
            let mut h1 = crate::common::new_hasher();
            w.core.pool.pool.verif_digest(&mut h1);
            let mut h2 = crate::common::new_hasher();
            w.core.votor.verif_digest(&mut h2);
            for e in &w.core.q {
                let d = format!("{e:?}");
                println!("   queued: {} ... {}", &d[..d.len().min(100)], &d[d.len().saturating_sub(160)..]);
            }
            println!("run {run}: pool {:x} votor {:x} q {:?} timers {:?} own_msgs {} total {:x}", h1.finish(), h2.finish(), w.core.q.len(), w.core.timers, w.own_msgs.len(), sys.digest(&w));
        }
        std::process::exit(0);
    }
    let only = std::env::var("C05_ONLY").ok();
    for sys in &systems {
        if only.as_ref().is_some_and(|o| !sys.name.contains(o.as_str())) {
            continue;
        }
        let d = if tier == Tier::Quick { quick_depth(&sys.name) } else { depth };
        let limits = BfsLimits::new(d, tier.pick(600_000, 30_000_000), per_secs);
        let st = bfs(sys, &sys.name, &limits, &report);
        println!(
            "  {}: states={} transitions={} depth_completed={} (reached {}) outcomes={} capped={:?}",
            sys.name, st.states, st.transitions, st.depth_completed, st.max_depth_reached, st.distinct_outcomes, st.capped
        );
        exhaustive_to_depth &= st.capped.is_none();
        st.merge_into(&mut total);
        let mut j = st.to_json();
        j["system"] = json!(sys.name);
        j["lag"] = json!(sys.lag);
        j["foreign_alphabet"] = json!(sys.alpha.foreign.iter().map(|o| o.show()).collect::<Vec<_>>());
        j["blocks"] = json!(sys.alpha.blocks.iter().map(|(b, p)| format!("(s{},b{})<-(s{},b{})", b.slot, b.idx, p.slot, p.idx)).collect::<Vec<_>>());
        per.push(j);
        samples.extend(st.samples.into_iter().take(1));
    }
    // ---- clusters of real nodes reacting to each other (the C02-A systems), each node monitored;
    // every state is also completed fairly in two orders with the monitors running
    let cluster_depth = tier.pick(3, 6);
    for inner in crate::c02::liveness_systems() {
        if only.is_some() {
            continue;
        }
        let mut live = crate::cluster::LiveSys::new(inner);
        live.own_votes = true;
        let name = format!("cluster/{}", live.inner.name);
        let d = if live.inner.name.contains("equivocates") && !live.inner.name.contains("small") && tier == Tier::Quick { 2 } else { cluster_depth };
        let limits = BfsLimits::new(d, tier.pick(600_000, 20_000_000), tier.pick(30, 90));
        let st = bfs(&live, &name, &limits, &report);
        println!(
            "  {}: states={} transitions={} depth_completed={} fair completions={} vote-count shapes={} capped={:?}",
            name, st.states, st.transitions, st.depth_completed, live.completions.load(std::sync::atomic::Ordering::Relaxed), live.shapes.lock().unwrap().len(), st.capped
        );
        exhaustive_to_depth &= st.capped.is_none();
        st.merge_into(&mut total);
        let mut j = st.to_json();
        j["system"] = json!(name);
        j["depth_bound"] = json!(d);
        j["real_nodes_monitored"] = json!(live.inner.nodes);
        j["fair_completions_monitored"] = json!(live.completions.load(std::sync::atomic::Ordering::Relaxed));
        per.push(j);
        samples.extend(st.samples.into_iter().take(1));
    }
    let cov = json!({
        "states": total.states,
        "transitions": total.transitions,
        "traces_validated_against_impl": total.transitions,
        "replayed_impl_steps": total.replayed_steps,
        "distinct_outcomes": total.distinct_outcomes,
        "exhaustive": false,
        "exhaustive_to_depth_bound": exhaustive_to_depth,
        "depth_bound": depth,
        "capped": total.capped,
        "bound": "all event sequences up to the depth bound over each alphabet (foreign votes/certificates, block arrivals, InvalidBlock, FirstShred, timeouts in timer order, loop-back of own broadcasts, Votor queue lag); plus the six cluster systems of C02-A (three real nodes reacting to each other, a noisy Byzantine validator, non-initial start states) with the own-vote monitor on every real node, in every prefix state and during two fair completions of each",
        "families": per,
        "samples": samples,
    });
    report.finish(cov)
}
