//! Driver for a real `BlockstoreImpl` and helpers to build signed blocks.

use alpenglow::consensus::{AddShredError, BlockInfo, Blockstore, BlockstoreEvent, BlockstoreImpl};
use alpenglow::crypto::merkle::{BlockHash, DoubleMerkleTree, SliceRoot};
use alpenglow::crypto::signature::SecretKey;
use alpenglow::shredder::{RegularShredder, Shredder, TOTAL_SHREDS, ValidatedShred};
use alpenglow::types::{Slice, Slot};
use alpenglow::{BlockId, Transaction};
use rand::SeedableRng;
use rand::rngs::StdRng;
use tokio::sync::mpsc;

use crate::c11::slice_index;
use crate::common::{poll_once, seed};

pub struct BsH {
    pub bs: BlockstoreImpl,
    rx: mpsc::Receiver<BlockstoreEvent>,
}

#[derive(Clone, Debug, PartialEq, Eq)]
pub enum Ev {
    FirstShred(u64),
    Block(u64, BlockHash, BlockId),
    Invalid(u64),
}

impl BsH {
    pub fn new() -> Self {
        let (tx, rx) = mpsc::channel(4096);
        Self {
            bs: BlockstoreImpl::new(tx),
            rx,
        }
    }

    pub fn drain(&mut self) -> Vec<Ev> {
        let mut out = Vec::new();
        while let Ok(e) = self.rx.try_recv() {
            out.push(match e {
                BlockstoreEvent::FirstShred(s) => Ev::FirstShred(s.inner()),
                BlockstoreEvent::InvalidBlock(s) => Ev::Invalid(s.inner()),
                BlockstoreEvent::Block { slot, block_info } => {
                    Ev::Block(slot.inner(), block_info.verif_hash().clone(), block_info.verif_parent().clone())
                }
                #[allow(unreachable_patterns)]
                _ => continue,
            });
        }
        out
    }

    pub fn add_diss(&mut self, s: ValidatedShred) -> (Result<Option<BlockInfo>, AddShredError>, Vec<Ev>) {
        let r = poll_once(self.bs.add_shred_from_dissemination(s));
        (r, self.drain())
    }

    pub fn add_repair(&mut self, hash: BlockHash, s: ValidatedShred) -> (Result<Option<BlockInfo>, AddShredError>, Vec<Ev>) {
        let r = poll_once(self.bs.add_shred_from_repair(hash, s));
        (r, self.drain())
    }
}

pub fn leader_key() -> SecretKey {
    SecretKey::new(&mut StdRng::seed_from_u64(seed() ^ 0x1ead))
}

/// Serialized transaction list as slice data.
pub fn txs_data(txs: &[Vec<u8>]) -> Vec<u8> {
    let v: Vec<Transaction> = txs.iter().map(|t| Transaction(t.clone())).collect();
    wincode::serialize(&v).expect("ser txs")
}

#[derive(Clone, Debug)]
pub struct SliceSpec {
    pub parent: Option<BlockId>,
    pub txs: Vec<Vec<u8>>,
    /// raw data override (undecodable payloads)
    pub raw: Option<Vec<u8>>,
}

pub struct SignedBlock {
    pub slot: u64,
    pub slices: Vec<Slice>,
    pub shreds: Vec<[ValidatedShred; TOTAL_SHREDS]>,
    pub roots: Vec<SliceRoot>,
    pub hash: BlockHash,
}

pub fn sign_block(slot: u64, specs: &[SliceSpec], sk: &SecretKey) -> SignedBlock {
    let mut shredder = RegularShredder::default();
    let mut slices = Vec::new();
    let mut shreds = Vec::new();
    let mut roots = Vec::new();
    for (i, sp) in specs.iter().enumerate() {
        let slice = Slice {
            slot: Slot::new(slot),
            slice_index: slice_index(i),
            is_last: i + 1 == specs.len(),
            parent: sp.parent.clone(),
            data: sp.raw.clone().unwrap_or_else(|| txs_data(&sp.txs)),
        };
        let sh = shredder.shred(&slice, sk).expect("shred");
        roots.push(sh[0].slice_root().clone());
        shreds.push(sh);
        slices.push(slice);
    }
    let tree = DoubleMerkleTree::new(roots.iter());
    SignedBlock {
        slot,
        slices,
        shreds,
        roots,
        hash: tree.get_root(),
    }
}

/// Signs a single slice with explicit header fields (for alternative / conflicting slices).
pub fn sign_slice(slot: u64, index: usize, is_last: bool, sp: &SliceSpec, sk: &SecretKey) -> (Slice, [ValidatedShred; TOTAL_SHREDS]) {
    let slice = Slice {
        slot: Slot::new(slot),
        slice_index: slice_index(index),
        is_last,
        parent: sp.parent.clone(),
        data: sp.raw.clone().unwrap_or_else(|| txs_data(&sp.txs)),
    };
    let sh = RegularShredder::default().shred(&slice, sk).expect("shred");
    (slice, sh)
}
