//! Wire mirrors: harness-side structs with the same wincode layout as the
//! crate's messages, used to mutate individual fields of otherwise valid
//! messages (real value -> bytes -> mirror -> edit -> bytes -> real decoder).
//! `self_test` asserts byte-for-byte agreement, so layout drift is a machinery
//! error rather than a silent loss of coverage.

use wincode::{SchemaRead, SchemaWrite};

pub type H32 = [u8; 32];

#[derive(Clone, Debug, PartialEq, Eq, SchemaRead, SchemaWrite)]
pub struct MSig96(pub [u8; 96]);

#[derive(Clone, Debug, PartialEq, Eq, SchemaRead, SchemaWrite)]
pub struct MAgg {
    pub sig: [u8; 96],
    pub num_bits: u64,
    pub words: Vec<u64>,
}

impl MAgg {
    pub fn signers(&self) -> Vec<usize> {
        (0..self.num_bits as usize)
            .filter(|i| self.words.get(i / 64).is_some_and(|w| w >> (i % 64) & 1 == 1))
            .collect()
    }
    pub fn set_signers(&mut self, n: usize, signers: &[usize]) {
        self.num_bits = n as u64;
        self.words = vec![0; n.div_ceil(64)];
        for s in signers {
            self.words[s / 64] |= 1 << (s % 64);
        }
    }
}

#[derive(Clone, Debug, PartialEq, Eq, SchemaRead, SchemaWrite)]
pub struct MBlockVote {
    pub slot: u64,
    pub hash: H32,
    pub sig: [u8; 96],
    pub signer: u64,
}

#[derive(Clone, Debug, PartialEq, Eq, SchemaRead, SchemaWrite)]
pub struct MSlotVote {
    pub slot: u64,
    pub sig: [u8; 96],
    pub signer: u64,
}

#[derive(Clone, Debug, PartialEq, Eq, SchemaRead, SchemaWrite)]
pub enum MVote {
    Notar(MBlockVote),
    NotarFallback(MBlockVote),
    Skip(MSlotVote),
    SkipFallback(MSlotVote),
    Final(MSlotVote),
}

#[derive(Clone, Debug, PartialEq, Eq, SchemaRead, SchemaWrite)]
pub struct MBlockCert {
    pub slot: u64,
    pub hash: H32,
    pub agg: MAgg,
    pub stake: u64,
}

#[derive(Clone, Debug, PartialEq, Eq, SchemaRead, SchemaWrite)]
pub struct MNfCert {
    pub slot: u64,
    pub hash: H32,
    pub a1: Option<MAgg>,
    pub a2: Option<MAgg>,
    pub stake: u64,
}

#[derive(Clone, Debug, PartialEq, Eq, SchemaRead, SchemaWrite)]
pub struct MSkipCert {
    pub slot: u64,
    pub a1: Option<MAgg>,
    pub a2: Option<MAgg>,
    pub stake: u64,
}

#[derive(Clone, Debug, PartialEq, Eq, SchemaRead, SchemaWrite)]
pub struct MFinalCert {
    pub slot: u64,
    pub agg: MAgg,
    pub stake: u64,
}

#[derive(Clone, Debug, PartialEq, Eq, SchemaRead, SchemaWrite)]
pub enum MCert {
    Notar(MBlockCert),
    NotarFallback(MNfCert),
    Skip(MSkipCert),
    FastFinal(MBlockCert),
    Final(MFinalCert),
}

#[derive(Clone, Debug, PartialEq, Eq, SchemaRead, SchemaWrite)]
pub enum MMsg {
    Vote(MVote),
    Cert(MCert),
}

#[derive(Clone, Debug, PartialEq, Eq, SchemaRead, SchemaWrite)]
pub struct MHeader {
    pub slot: u64,
    pub slice_index: u64,
    pub is_last: bool,
}

#[derive(Clone, Debug, PartialEq, Eq, SchemaRead, SchemaWrite)]
pub struct MShredPayload {
    pub header: MHeader,
    pub shred_index: u64,
    pub data: Vec<u8>,
}

#[derive(Clone, Debug, PartialEq, Eq, SchemaRead, SchemaWrite)]
pub enum MPayloadType {
    Data(MShredPayload),
    Coding(MShredPayload),
}

#[derive(Clone, Debug, PartialEq, Eq, SchemaRead, SchemaWrite)]
pub struct MShred {
    pub payload: MPayloadType,
    pub sig: [u8; 64],
    pub path: Vec<H32>,
}

impl MShred {
    pub fn p(&self) -> &MShredPayload {
        match &self.payload {
            MPayloadType::Data(p) | MPayloadType::Coding(p) => p,
        }
    }
    pub fn p_mut(&mut self) -> &mut MShredPayload {
        match &mut self.payload {
            MPayloadType::Data(p) | MPayloadType::Coding(p) => p,
        }
    }
    pub fn flip_tag(&mut self) {
        self.payload = match self.payload.clone() {
            MPayloadType::Data(p) => MPayloadType::Coding(p),
            MPayloadType::Coding(p) => MPayloadType::Data(p),
        };
    }
}

#[derive(Clone, Debug, PartialEq, Eq, SchemaRead, SchemaWrite)]
pub struct MBlockId {
    pub slot: u64,
    pub hash: H32,
}

#[derive(Clone, Debug, PartialEq, Eq, SchemaRead, SchemaWrite)]
pub enum MReqType {
    LastSliceRoot(MBlockId),
    SliceRoot(MBlockId, u64),
    Shred(MBlockId, u64, u64),
}

#[derive(Clone, Debug, PartialEq, Eq, SchemaRead, SchemaWrite)]
pub struct MRequest {
    pub sender: u64,
    pub req: MReqType,
}

#[derive(Clone, Debug, PartialEq, Eq, SchemaRead, SchemaWrite)]
pub enum MResponse {
    LastSliceRoot(MReqType, u64, H32, Vec<H32>),
    SliceRoot(MReqType, H32, Vec<H32>),
    Shred(MReqType, MShred),
    Nack(MReqType),
}

#[derive(Clone, Debug, PartialEq, Eq, SchemaRead, SchemaWrite)]
pub struct MTransaction(pub Vec<u8>);

pub fn enc<T: SchemaWrite<wincode::config::DefaultConfig, Src = T>>(v: &T) -> Vec<u8> {
    wincode::serialize(v).expect("serialize")
}

/// real value -> mirror
pub fn to_mirror<R, M>(real: &R) -> M
where
    R: SchemaWrite<wincode::config::DefaultConfig, Src = R>,
    M: for<'de> SchemaRead<'de, wincode::config::DefaultConfig, Dst = M>,
{
    let bytes = wincode::serialize(real).expect("serialize real");
    wincode::deserialize::<M>(&bytes).unwrap_or_else(|e| {
        crate::common::machinery_failure(&format!("wire mirror does not decode real bytes: {e:?}"))
    })
}

/// Like `to_mirror`, but a layout mismatch is returned instead of ending the run.
pub fn try_to_mirror<R, M>(real: &R) -> Result<M, String>
where
    R: SchemaWrite<wincode::config::DefaultConfig, Src = R>,
    M: for<'de> SchemaRead<'de, wincode::config::DefaultConfig, Dst = M>,
{
    let bytes = wincode::serialize(real).map_err(|e| format!("{e:?}"))?;
    wincode::deserialize::<M>(&bytes).map_err(|e| format!("{e:?}"))
}

/// mirror -> bytes -> real decoder (the network one: exact length, MTU preallocation cap)
pub fn from_mirror<M, R>(m: &M) -> Result<R, String>
where
    M: SchemaWrite<wincode::config::DefaultConfig, Src = M>,
    R: for<'de> SchemaRead<'de, alpenglow::network::NetworkMessageConfig, Dst = R>,
{
    let bytes = wincode::serialize(m).expect("serialize mirror");
    alpenglow::network::deserialize::<R>(&bytes).map_err(|e| format!("{e:?}"))
}

/// Checks that a mirror re-encodes a real value to identical bytes.
pub fn roundtrip_check<R, M>(real: &R, what: &str)
where
    R: SchemaWrite<wincode::config::DefaultConfig, Src = R>,
    M: for<'de> SchemaRead<'de, wincode::config::DefaultConfig, Dst = M>
        + SchemaWrite<wincode::config::DefaultConfig, Src = M>,
{
    let bytes = wincode::serialize(real).expect("serialize real");
    let m: M = wincode::deserialize(&bytes).unwrap_or_else(|e| {
        crate::common::machinery_failure(&format!("mirror of {what} does not decode: {e:?}"))
    });
    let again = wincode::serialize(&m).expect("serialize mirror");
    if again != bytes {
        crate::common::machinery_failure(&format!("mirror of {what} re-encodes differently"));
    }
}
