//! vcheck: model-checking harness for the properties C01..C20 of qkniep/alpenglow.
//! Usage: vcheck <ID> <quick|thorough> | vcheck replay <file>

mod common;
mod engine;
mod pooldrv;
mod poolsys;
mod c03_c04_c06;
mod c15;
mod c16;
mod c17;
mod chainsys;
mod c07_c08_c18;
mod nodesys;
mod c05;
mod wire;
mod c09;
mod c11;
mod bsdrv;
mod c12;
mod c13;
mod c14;
mod c19;
mod c20;
mod simnet;
mod c02;
mod c10;
mod c01;
mod cluster;

use common::Tier;

fn main() {
    let mut args: Vec<String> = std::env::args().collect();
    if args.len() == 3 && args[1] == "replay" {
        // vcheck replay <replay file>: re-execute a recorded BFS schedule (twice) without exploring
        let body: serde_json::Value = match std::fs::read_to_string(&args[2]).ok().and_then(|t| serde_json::from_str(&t).ok()) {
            Some(b) => b,
            None => {
                eprintln!("cannot read replay file {}", args[2]);
                std::process::exit(2);
            }
        };
        let prop = body["property"].as_str().unwrap_or("").to_string();
        let rep = &body["replay"];
        if rep["engine"].as_str() != Some("bfs") {
            println!("{} records the failing input of an enumeration check, not a schedule; it is reproduced by running the check (./check {prop} quick), the input is:\n{}", args[2], serde_json::to_string_pretty(rep).unwrap());
            std::process::exit(0);
        }
        let actions: Vec<u16> = rep["actions"].as_array().map(|a| a.iter().filter_map(|x| x.as_u64().map(|n| n as u16)).collect()).unwrap_or_default();
        let _ = common::REPLAY.set(common::ReplayReq { label: rep["system"].as_str().unwrap_or("").to_string(), actions });
        args = vec![args[0].clone(), prop, "thorough".to_string()];
    }
    if args.len() < 3 {
        eprintln!("usage: vcheck <ID> <quick|thorough>");
        std::process::exit(2);
    }
    let tier = match args[2].as_str() {
        "quick" => Tier::Quick,
        "thorough" => Tier::Thorough,
        _ => {
            eprintln!("tier must be quick or thorough");
            std::process::exit(2);
        }
    };
    common::install_panic_hook();
    let threads = std::env::var("VERIF_THREADS").ok().and_then(|s| s.parse().ok()).unwrap_or(16);
    rayon::ThreadPoolBuilder::new().num_threads(threads).stack_size(16 << 20).build_global().ok();
    let id: &'static str = Box::leak(args[1].clone().into_boxed_str());
    let code = match common::catch(|| dispatch(id, tier)) {
        Ok(c) => c,
        Err(msg) => {
            // A panic escaped a check. If it was raised inside the code under test (fixture
            // construction included) that is a verdict: the code panicked on an input of the
            // check's domain. A panic raised by the harness itself is a machinery failure.
            let last = common::last_panic().unwrap_or_default();
            // location of the panic: the harness's own files are reported relative ("src/..."), the
            // path dependency under test with its absolute source path (wherever the repository
            // lives), third-party crates under the cargo registry, std under the toolchain
            let loc = last.rsplit("@ ").next().unwrap_or("");
            let in_code_under_test = loc.starts_with('/') && !loc.contains("/.cargo/") && !loc.contains("/rustc/") && !loc.contains("/rustlib/");
            if in_code_under_test {
                let report = common::Report::new(id, tier, "other");
                report.violation(
                    format!("{id}:uncaught-panic-in-code-under-test:{}", engine::panic_class(&msg)),
                    format!("the code under test panicked outside any oracle (e.g. while the check built its inputs): {last}"),
                    serde_json::json!({"panic": last}),
                );
                report.finish(serde_json::json!({"evaluations": 1, "distinct_nontrivial": 1, "rule": "the check aborted on a panic of the code under test before completing", "samples": [last], "aborted": true}))
            } else if msg.contains("on an `Err` value") || (msg.contains(": ") && last.contains("@ src/") && (msg.contains("Error") || msg.contains("Err(") || msg.contains("Limit") || msg.contains("Invalid"))) {
                // the harness unwrapped a Result that the code under test returned while the check
                // was building a *valid* input (signing, shredding, serializing a legitimate value):
                // the code under test refused something it has to accept
                let report = common::Report::new(id, tier, "other");
                report.violation(
                    format!("{id}:valid-input-refused-by-code-under-test:{}", engine::panic_class(&msg)),
                    format!("while the check built a valid input the code under test returned an error: {last}"),
                    serde_json::json!({"panic": last}),
                );
                report.finish(serde_json::json!({"evaluations": 1, "distinct_nontrivial": 1, "rule": "the check aborted because the code under test refused a valid fixture", "samples": [last], "aborted": true}))
            } else {
                println!("MACHINERY-FAILURE: harness panicked: {last}");
                2
            }
        }
    };
    if common::replay_req().is_some() {
        let res = common::REPLAY_RESULTS.lock().unwrap();
        if res.is_empty() {
            println!("REPLAY: no system of {id} matches the recorded label (was the check's alphabet changed since the file was written?)");
            std::process::exit(2);
        }
        let mut reproduced = false;
        for (label, k1, k2, same_digest) in res.iter() {
            if k1 != k2 || !same_digest {
                println!("MACHINERY-FAILURE: the two replays on {label} disagree ({k1:?} vs {k2:?}, digests equal: {same_digest})");
                std::process::exit(2);
            }
            println!("REPLAY system={label}: both runs identical; violations at the last step: {k1:?}");
            reproduced |= !k1.is_empty();
        }
        std::process::exit(if reproduced { 1 } else { 0 });
    }
    std::process::exit(code);
}

fn dispatch(id: &str, tier: Tier) -> i32 {
    match id {
        "C01" => c01::run(tier),
        "C02" => c02::run(tier),
        "C03" => c03_c04_c06::run_c03(tier),
        "C04" => c03_c04_c06::run_c04(tier),
        "C06" => c03_c04_c06::run_c06(tier),
        "C09" => c09::run(tier),
        "C10" => c10::run(tier),
        "C11" => c11::run(tier),
        "C12" => c12::run(tier),
        "C13" => c13::run(tier),
        "C19" => c19::run(tier),
        "C20" => c20::run(tier),
        "C16" => c16::run(tier),
        "C17" => c17::run(tier),
        "C14" => c14::run(tier),
        "C15" => c15::run(tier),
        "C05" => c05::run(tier),
        "C07" => c07_c08_c18::run_c07(tier),
        "C08" => c07_c08_c18::run_c08(tier),
        "C18" => c07_c08_c18::run_c18(tier),
        other => {
            eprintln!("unknown property {other}");
            2
        }
    }
}
