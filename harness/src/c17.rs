//! C17: committee sampling always yields a well-formed, stake-respecting committee (E3).

use std::collections::BTreeMap;
use std::convert::Infallible;
use std::sync::Mutex;
use std::sync::atomic::{AtomicUsize, Ordering};

use alpenglow::disseminator::rotor::sampling_strategy::{
    DecayingAcceptanceSampler, FaitAccompli2Sampler, PartitionSampler, TurbineSampler, UniformSampler,
};
use alpenglow::disseminator::rotor::{FaitAccompli1Sampler, QuorumSamplingStrategy, SamplingStrategy, StakeWeightedSampler};
use alpenglow::{ValidatorIndex, ValidatorInfo};
use rand::rngs::StdRng;
use rand::{Rng, SeedableRng, TryRng};
use rayon::prelude::*;
use serde_json::json;

use crate::common::{Report, Samples, Tier, catch, make_epoch};

/// A real PRNG stream in which up to two draws are overridden by an extreme value.
pub struct ScriptRng {
    inner: StdRng,
    pos: usize,
    overrides: Vec<(usize, u64)>,
}

impl ScriptRng {
    fn new(seed: u64, overrides: Vec<(usize, u64)>) -> Self {
        Self { inner: StdRng::seed_from_u64(seed), pos: 0, overrides }
    }
    fn word(&mut self) -> u64 {
        let v = self.inner.next_u64();
        let p = self.pos;
        self.pos += 1;
        self.overrides.iter().find(|(i, _)| *i == p).map(|(_, x)| *x).unwrap_or(v)
    }
}

impl TryRng for ScriptRng {
    type Error = Infallible;
    fn try_next_u32(&mut self) -> Result<u32, Infallible> {
        Ok((self.word() >> 32) as u32)
    }
    fn try_next_u64(&mut self) -> Result<u64, Infallible> {
        Ok(self.word())
    }
    fn try_fill_bytes(&mut self, dst: &mut [u8]) -> Result<(), Infallible> {
        for c in dst.chunks_mut(8) {
            let w = self.word().to_le_bytes();
            c.copy_from_slice(&w[..c.len()]);
        }
        Ok(())
    }
}

fn scripts(tier: Tier) -> Vec<(u64, Vec<(usize, u64)>)> {
    let mut v: Vec<(u64, Vec<(usize, u64)>)> = Vec::new();
    let seeds = tier.pick(6u64, 128);
    for s in 0..seeds {
        v.push((s, vec![]));
    }
    let ext = [0u64, u64::MAX, 1 << 63];
    let positions: Vec<usize> = tier.pick(vec![0, 1, 2, 5, 63, 64], (0..12).chain([31, 63, 64, 65, 127, 128]).collect());
    for p in &positions {
        for e in ext {
            v.push((100, vec![(*p, e)]));
        }
    }
    // two departures
    let pp: Vec<usize> = tier.pick(vec![0, 1, 2], vec![0, 1, 2, 3, 5, 64]);
    for a in &pp {
        for b in &pp {
            if a < b {
                for e1 in [0u64, u64::MAX] {
                    for e2 in [0u64, u64::MAX] {
                        v.push((101, vec![(*a, e1), (*b, e2)]));
                    }
                }
            }
        }
    }
    v
}

fn families(n: usize, k: usize) -> Vec<(String, Vec<u64>)> {
    let mut v: Vec<(String, Vec<u64>)> = vec![("equal-1".into(), vec![1; n]), ("equal-1000".into(), vec![1000; n])];
    if n >= 2 {
        v.push(("heavy-tail".into(), (0..n).map(|i| 1 + 1_000_000 / (i as u64 + 1).pow(2)).collect()));
        let mut d = vec![1u64; n];
        d[0] = 100 * n as u64;
        v.push(("one-dominant".into(), d));
        // lamport-scale stakes (total ~ 4e17, as on a production network; products with k overflow u64)
        v.push(("lamports".into(), (0..n).map(|i| 400_000_000_000_000_000 / (n as u64) + 1_000_003 * (i as u64 % 7)).collect()));
        // stakes straddling i/k: total = k * 100, validator stakes just below / at / above multiples of 100
        let mut s: Vec<u64> = (0..n).map(|i| 100 * (1 + (i as u64 % 3)) + [0u64, 1, 99][i % 3]).collect();
        let total: u64 = s.iter().sum();
        let want = (k as u64) * 100 * (total / ((k as u64) * 100)).max(1);
        if want > total {
            s[n - 1] += want - total;
        }
        v.push(("straddling-i-over-k".into(), s));
    }
    if n <= 5 && n >= 2 {
        // all vectors with entries 1..=3
        let mut all = vec![vec![]];
        for _ in 0..n {
            all = all.into_iter().flat_map(|p: Vec<u64>| (1..=3u64).map(move |x| { let mut q = p.clone(); q.push(x); q })).collect();
        }
        for a in all {
            v.push((format!("small-{a:?}"), a));
        }
    }
    v
}

/// Short root-cause label of a construction panic.
fn cause_of(msg: &str) -> &'static str {
    if msg.contains("f.iter().sum") {
        "minimize-f-assertion"
    } else if msg.contains("InsufficientNonZero") {
        "all-weights-zero"
    } else if msg.contains("InvalidInput") {
        "empty-weight-list"
    } else if msg.contains("subtract with overflow") {
        "subtract-overflow"
    } else {
        "other"
    }
}

fn fam_class(name: &str) -> String {
    if name.starts_with("small-") { "small-integers".to_string() } else { name.to_string() }
}

struct Case<'a> {
    strategy: &'static str,
    validators: &'a [ValidatorInfo],
    stakes: &'a [u64],
    k: usize,
    fam: &'a str,
}

fn floor_seats(stakes: &[u64], k: usize) -> Vec<usize> {
    let total: u128 = stakes.iter().map(|s| *s as u128).sum();
    stakes.iter().map(|s| ((*s as u128) * (k as u128) / total) as usize).collect()
}

/// Builds the strategy twice and samples with every script; returns the number of evaluations.
fn run_quorum<S: QuorumSamplingStrategy>(
    case: &Case,
    build: impl Fn() -> S,
    scripts: &[(u64, Vec<(usize, u64)>)],
    report: &Report,
    check_floor: bool,
    cap: Option<usize>,
    samples: &Mutex<Samples>,
) -> usize {
    let n = case.validators.len();
    let ctx = json!({"strategy": case.strategy, "n": n, "stakes": case.fam, "k": case.k});
    let keyctx = format!("{}:n{}:{}:k{}", case.strategy, n, case.fam.replace(' ', ""), case.k);
    let built = catch(std::panic::AssertUnwindSafe(|| (build(), build())));
    let (a, b) = match built {
        Err(msg) => {
            report.violation(
                format!("C17:construction-panics:{}:{keyctx}", cause_of(&msg)),
                format!("{} cannot be constructed for n={n} stakes {} k={}: {:.100}", case.strategy, case.fam, case.k, msg),
                ctx,
            );
            return 1;
        }
        Ok(x) => x,
    };
    let floors = floor_seats(case.stakes, case.k);
    let mut evals = 0;
    for (seed, ov) in scripts {
        evals += 1;
        let replay = json!({"strategy": case.strategy, "n": n, "stakes": case.fam, "k": case.k, "seed": seed, "overrides": ov});
        samples.lock().unwrap().push(|| replay.clone());
        let r = catch(std::panic::AssertUnwindSafe(|| {
            let x = a.sample_quorum(&mut ScriptRng::new(*seed, ov.clone()));
            let y = b.sample_quorum(&mut ScriptRng::new(*seed, ov.clone()));
            let x2 = a.sample_quorum(&mut ScriptRng::new(*seed, ov.clone()));
            (x, y, x2)
        }));
        let (x, y, x2) = match r {
            Err(msg) => {
                report.violation(format!("C17:sampling-panics:{keyctx}"), format!("n={n} stakes {}: {:.100}", case.fam, msg), replay);
                continue;
            }
            Ok(v) => v,
        };
        if x.len() != case.k || a.quorum_size() != case.k {
            report.violation(
                format!("C17:wrong-committee-size:{keyctx}"),
                format!("n={n} stakes {}: {} members returned (quorum_size {}) for k={}", case.fam, x.len(), a.quorum_size(), case.k),
                replay.clone(),
            );
        }
        if x.iter().any(|v| v.inner() as usize >= n) {
            report.violation(format!("C17:member-out-of-range:{keyctx}"), format!("n={n}: {x:?}"), replay.clone());
            continue;
        }
        if x != y {
            report.violation(
                format!("C17:depends-on-construction:{keyctx}"),
                format!("n={n} stakes {}: two constructions give different committees for the same random source", case.fam),
                replay.clone(),
            );
        }
        if x != x2 {
            report.violation(
                format!("C17:depends-on-earlier-draws:{keyctx}"),
                format!("n={n} stakes {}: the same instance gives different committees for the same random source", case.fam),
                replay.clone(),
            );
        }
        let mut count = vec![0usize; n];
        for v in &x {
            count[v.inner() as usize] += 1;
        }
        if check_floor {
            for v in 0..n {
                if count[v] < floors[v] {
                    report.violation(
                        format!("C17:below-floor-seats:{keyctx}"),
                        format!("n={n} stakes {}: validator {v} (stake {}) got {} of k={} seats, floor(f*k) = {}", case.fam, case.stakes[v], count[v], case.k, floors[v]),
                        replay.clone(),
                    );
                    break;
                }
            }
        }
        if case.strategy.starts_with("fa1") {
            // a stake that is an exact multiple of total/k is used up by the deterministic phase: the
            // validator enters the random phase with weight zero and must not be drawn there
            let total: u128 = case.stakes.iter().map(|s| *s as u128).sum();
            for v in 0..n {
                let sk = case.stakes[v] as u128 * case.k as u128;
                if total > 0 && sk % total == 0 && count[v] as u128 != sk / total {
                    report.violation(
                        format!("C17:zero-residual-validator-drawn-in-random-phase:{keyctx}"),
                        format!("n={n} stakes {}: validator {v} (stake {}) holds exactly {} seats' worth of stake for k={} and has no residual weight, yet got {} seats", case.fam, case.stakes[v], sk / total, case.k, count[v]),
                        replay.clone(),
                    );
                    break;
                }
            }
        }
        if let Some(cap) = cap {
            if let Some(v) = (0..n).find(|v| count[*v] > cap) {
                report.violation(
                    format!("C17:seat-cap-exceeded:{keyctx}"),
                    format!("n={n}: validator {v} drawn {} times, cap {cap}", count[v]),
                    replay.clone(),
                );
            }
        }
    }
    evals
}

/// `DecayingAcceptanceSampler` is stateful between single draws by design, but documents that
/// `sample_quorum` leaves it "just as it was when it was first created": after any single draws and
/// one committee, the next committee must be the one a fresh instance returns for the same random
/// source.
fn decaying_after_single_draws(case: &Case, ms: f64, scripts: &[(u64, Vec<(usize, u64)>)], report: &Report) -> usize {
    let n = case.validators.len();
    let keyctx = format!("{}:n{}:{}:k{}", case.strategy, n, case.fam.replace(' ', ""), case.k);
    let mut evals = 0;
    for draws in [1usize, 2] {
        for via in ["sample", "sample_info", "sample_one"] {
            // the single draws and the first committee together must fit under the seat caps,
            // otherwise the first committee cannot be formed at all (and nothing is promised)
            if draws + case.k > n * ms.floor() as usize {
                continue;
            }
            for (seed, ov) in scripts.iter().take(3) {
                evals += 1;
                let replay = json!({"strategy": case.strategy, "n": n, "stakes": case.fam, "k": case.k, "seed": seed, "overrides": ov, "single_draws_before": draws, "via": via});
                let r = catch(std::panic::AssertUnwindSafe(|| {
                    let a = DecayingAcceptanceSampler::new(case.validators.to_vec(), ms, case.k);
                    let fresh = DecayingAcceptanceSampler::new(case.validators.to_vec(), ms, case.k);
                    let mut rng = ScriptRng::new(seed ^ 0x5151, Vec::new());
                    for _ in 0..draws {
                        match via {
                            "sample" => { let _ = a.sample(&mut rng); }
                            "sample_info" => { let _ = a.sample_info(&mut rng); }
                            _ => { let _ = a.sample_one(&mut rng); }
                        }
                    }
                    // this committee may legitimately reflect the single draws; it only has to exist
                    let first = catch(std::panic::AssertUnwindSafe(|| a.sample_quorum(&mut ScriptRng::new(seed ^ 0x77, Vec::new()))));
                    if first.is_err() {
                        return (false, Vec::new(), Vec::new());
                    }
                    let x = a.sample_quorum(&mut ScriptRng::new(*seed, ov.clone()));
                    let y = fresh.sample_quorum(&mut ScriptRng::new(*seed, ov.clone()));
                    (true, x, y)
                }));
                match r {
                    Err(msg) => report.violation(format!("C17:sampling-panics-after-single-draws:{keyctx}"), format!("{:.120}", msg), replay),
                    Ok((_, x, y)) => {
                        if x != y {
                            report.violation(
                                format!("C17:committee-depends-on-draws-before-the-previous-committee:{keyctx}"),
                                format!("n={n} stakes {} k={}: after {draws} single draw(s) via {via}() and one committee, the next committee is {x:?}; a fresh instance returns {y:?} for the same random source", case.fam, case.k),
                                replay,
                            );
                        }
                    }
                }
            }
        }
    }
    evals
}

/// Every outcome of a single draw of `StakeWeightedSampler` (the sampler underneath all random
/// phases), for every small weight vector with zeros anywhere: the random word is scripted so that
/// each of the `total` units is hit once. A zero-weight validator must never be returned, and each
/// validator must own exactly `weight` of the units (when the unit mapping could be calibrated).
fn single_draw_exactness(report: &Report, tier: Tier) -> (usize, bool) {
    let draw = |weights: &[u64], unit: u64, total: u64| -> Result<usize, String> {
        // a word in the middle of the interval that a multiply-shift reduction (on 64 or on the
        // upper 32 bits) maps to `unit`
        let x = ((((unit as u128) * 2 + 1) << 63) / total as u128) as u64;
        let w = weights.to_vec();
        catch(move || {
            let sampler = StakeWeightedSampler::new(make_epoch_light(&w));
            let mut rng = ScriptRng::new(3, vec![(0, x), (1, x), (2, x)]);
            sampler.sample(&mut rng).as_usize()
        })
    };
    // calibration: with unit weights, unit u must select validator u
    let calibrated = (0..5u64).all(|u| draw(&[1, 1, 1, 1, 1], u, 5) == Ok(u as usize)) && (0..6u64).all(|u| draw(&[2, 1, 3], u, 6) == Ok([0, 0, 1, 2, 2, 2][u as usize]));
    let maxw = tier.pick(2u64, 3);
    let mut cases = 0;
    for n in 2..=tier.pick(4usize, 5) {
        for code in 0..(maxw + 1).pow(n as u32) {
            let weights: Vec<u64> = (0..n).map(|i| code / (maxw + 1).pow(i as u32) % (maxw + 1)).collect();
            let total: u64 = weights.iter().sum();
            if total == 0 {
                continue;
            }
            let mut owned = vec![0u64; n];
            for unit in 0..total {
                cases += 1;
                let replay = json!({"sampler": "StakeWeightedSampler", "weights": weights, "unit_drawn": unit, "of": total});
                match draw(&weights, unit, total) {
                    Err(p) => report.violation(format!("C17:single-draw-panics:{}", cause_of(&p)), p, replay),
                    Ok(i) if i >= n || weights[i] == 0 => {
                        report.violation(
                            "C17:zero-weight-validator-drawn".to_string(),
                            format!("weights {weights:?}: the draw that lands on unit {unit} of {total} returns validator {i}, whose weight is 0"),
                            replay,
                        );
                    }
                    Ok(i) => owned[i] += 1,
                }
            }
            if calibrated && owned != weights {
                report.violation(
                    "C17:draw-not-proportional-to-weight".to_string(),
                    format!("weights {weights:?}: over one draw per unit the validators are returned {owned:?} times"),
                    json!({"sampler": "StakeWeightedSampler", "weights": weights}),
                );
            }
        }
    }
    (cases, calibrated)
}

pub fn run(tier: Tier) -> i32 {
    let report = Report::new("C17", tier, "exploration");
    let (single_draws, calibrated) = single_draw_exactness(&report, tier);
    println!("  single-draw exactness: {single_draws} scripted draws, unit mapping calibrated = {calibrated}");
    let scripts = scripts(tier);
    let mut ns: Vec<usize> = (1..=16).collect();
    ns.extend(tier.pick(vec![31, 32, 33, 64, 65, 100, 1000], (17..=24).chain([31, 32, 33, 48, 49, 50, 63, 64, 65, 66, 100, 127, 128, 129, 1000, 2000]).collect()));
    let ks: Vec<usize> = tier.pick(vec![1, 2, 3, 64], vec![1, 2, 3, 4, 5, 7, 8, 16, 32, 49, 63, 64, 65, 128, 200]);
    let evals = AtomicUsize::new(0);
    let samples = Mutex::new(Samples::new(6));
    let per_strategy: Mutex<BTreeMap<&'static str, usize>> = Mutex::new(BTreeMap::new());
    let work: Vec<(usize, usize)> = ns.iter().flat_map(|n| ks.iter().map(move |k| (*n, *k))).collect();
    work.par_iter().for_each(|(n, k)| {
        let big = *n > 100;
        let sc: &[(u64, Vec<(usize, u64)>)] = if big { &scripts[..4] } else { &scripts };
        for (fam, stakes) in families(*n, *k) {
            if big && fam != "equal-1" && fam != "heavy-tail" {
                continue;
            }
            let e = make_epoch_light(&stakes);
            let vals = &e;
            let mk = |strategy: &'static str| Case { strategy, validators: vals, stakes: &stakes, k: *k, fam: &fam };
            let mut add = |s: &'static str, c: usize| {
                evals.fetch_add(c, Ordering::Relaxed);
                *per_strategy.lock().unwrap().entry(s).or_default() += c;
            };
            add("uniform", run_quorum(&mk("uniform"), || UniformSampler::new(vals.to_vec()).into_quorum_strategy(*k), sc, &report, false, None, &samples));
            add("stake-weighted", run_quorum(&mk("stake-weighted"), || StakeWeightedSampler::new(vals.to_vec()).into_quorum_strategy(*k), sc, &report, false, None, &samples));
            add("partition", run_quorum(&mk("partition"), || PartitionSampler::new(vals.to_vec(), *k), sc, &report, false, None, &samples));
            add("fa1-stake-weighted", run_quorum(&mk("fa1-stake-weighted"), || FaitAccompli1Sampler::new_with_stake_weighted_fallback(vals.to_vec(), *k as u64), sc, &report, true, None, &samples));
            add("fa1-partition", run_quorum(&mk("fa1-partition"), || FaitAccompli1Sampler::new_with_partition_fallback(vals.to_vec(), *k as u64), sc, &report, true, None, &samples));
            add("fa2", run_quorum(&mk("fa2"), || FaitAccompli2Sampler::new(vals.to_vec(), *k as u64), sc, &report, true, None, &samples));
            for (ms, label) in [(1.0f64, "decaying-1.0"), (2.5, "decaying-2.5")] {
                let capn = ms.ceil() as usize;
                if *k <= *n * (ms.floor() as usize) {
                    add(label, run_quorum(&mk(label), || DecayingAcceptanceSampler::new(vals.to_vec(), ms, *k), sc, &report, false, Some(capn), &samples));
                    if *n <= 12 {
                        add(label, decaying_after_single_draws(&mk(label), ms, sc, &report));
                    }
                }
            }
            if *n <= 16 {
                for (f, label) in [(200usize, "turbine-200"), (2, "turbine-2")] {
                    add(label, run_quorum(&mk(label), || TurbineSampler::new_with_fanout(vals.to_vec(), f).into_quorum_strategy(*k), sc, &report, false, None, &samples));
                }
            }
        }
    });
    let total = evals.load(Ordering::Relaxed);
    let cov = json!({
        "evaluations": total,
        "distinct_nontrivial": total,
        "rule": "every shipped strategy (uniform, stake-weighted, partition, FA1 with both fallbacks, FA2, decaying acceptance 1.0/2.5, Turbine sampler fanout 200/2 for n<=16) x validator counts x stake families (equal, heavy tail, one dominant, stakes straddling i/k, all vectors over 1..3 for n<=5) x committee sizes, each constructed twice and sampled with every scripted random source (real PRNG streams with 0, 1 or 2 draws overridden by 0 / 2^63 / MAX); every (strategy, validator set, k, script) sample is a distinct non-trivial case: construction must not panic, exactly k members in range, identical committees for two constructions and for repeated use, floor(f*k) seats under the Fait-Accompli samplers (exact integer arithmetic), seat cap under decaying acceptance",
        "exhaustive": true,
        "validator_counts": ns,
        "committee_sizes": ks,
        "scripts": scripts.len(),
        "evaluations_per_strategy": *per_strategy.lock().unwrap(),
        "samples": samples.into_inner().unwrap().items,
    });
    report.finish(cov)
}

/// Validator infos without generating fresh keys for every stake vector (keys are irrelevant here).
fn make_epoch_light(stakes: &[u64]) -> Vec<ValidatorInfo> {
    use std::sync::OnceLock;
    static TEMPLATE: OnceLock<ValidatorInfo> = OnceLock::new();
    let t = TEMPLATE.get_or_init(|| make_epoch(&[1]).info.validators()[0].clone());
    stakes
        .iter()
        .enumerate()
        .map(|(i, s)| {
            let mut v = t.clone();
            v.id = ValidatorIndex::new(i as u64);
            v.stake = alpenglow::Stake::new(*s);
            v
        })
        .collect()
}

#[allow(dead_code)]
fn unused<R: Rng>(_: R) {}
