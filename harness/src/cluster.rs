//! E1 with H >= 2: several real node cores (`PoolImpl` + `Votor` each) exchanging their real
//! broadcasts over explorer-owned FIFO links, one Byzantine validator that may sign anything,
//! adversarial certificate aggregation from really signed votes, and observer pools.

use std::collections::{BTreeMap, BTreeSet};
use std::hash::{Hash, Hasher};
use std::sync::Arc;

use alpenglow::consensus::verif::verif_capture_timeouts;
use alpenglow::consensus::{BlockInfo, BlockstoreEvent, Cert, ConsensusMessage, Pool, Vote};
use alpenglow::types::Slot;
use alpenglow::BlockId;

use crate::common::{Epoch, catch, new_hasher, validate_cert_cached, validate_vote_cached};
use crate::engine::{StepOutcome, Sys};
use crate::nodesys::{Core, vote_tag};
use crate::pooldrv::*;

pub struct ClusterAlphabet {
    /// votes the Byzantine validator may send (to any node)
    pub byz_votes: Vec<VoteSpec>,
    pub forge: Vec<(CK, u64, u8)>,
    pub blocks: Vec<(Blk, Blk)>,
    pub invalid: Vec<u64>,
    pub windows: Vec<u64>,
}

pub struct ClusterSys {
    pub name: String,
    pub epoch: Arc<Epoch>,
    /// validator indices of the real correct nodes
    pub nodes: Vec<usize>,
    pub byz: usize,
    pub alpha: ClusterAlphabet,
    pub factory: Factory,
    pub max_slot: u64,
    pub max_blk: u8,
    pub max_msgs: usize,
    /// executed on the fresh world before exploration starts (non-initial start states)
    pub prefix: Vec<PrefixOp>,
}

#[derive(Clone, Debug)]
pub enum PrefixOp {
    /// block k of the alphabet reaches every real node
    BlockToAll(usize),
    /// everything in flight is delivered (FIFO) until nothing is left
    DeliverAll,
    /// every real node's armed timer for the window fires once
    TimersOnce(u64),
    /// the same three, restricted to the listed real nodes (indices into `nodes`): the others lag
    BlockTo(usize, Vec<usize>),
    DeliverAmong(Vec<usize>),
    TimersOnceAt(u64, Vec<usize>),
    /// Byzantine vote k of the alphabet reaches the listed real nodes
    ByzTo(usize, Vec<usize>),
    /// everything real node `from` has emitted so far reaches real node `to` (one direction only)
    DeliverFromTo(usize, usize),
}

pub struct ClusterWorld {
    pub cores: Vec<Core>,
    /// messages emitted by each real node, in emission order
    pub emitted: Vec<Vec<ConsensusMessage>>,
    /// next index of node j's messages to deliver to node i: next[i][j]
    pub next: Vec<Vec<usize>>,
    pub byz_delivered: Vec<Vec<bool>>,
    pub forged: Vec<Vec<bool>>,
    pub blocks_delivered: Vec<Vec<bool>>,
    pub invalid_delivered: Vec<Vec<bool>>,
    pub blocks_known: BTreeMap<BlockId, BlockId>,
    pub out_of_scope: bool,
    /// cap on messages recorded per node (raised during fair completion)
    pub msg_cap: usize,
    /// C05 monitors of the real nodes' own votes, fresh judge pools and what they reported
    pub mons: Vec<crate::nodesys::Mon>,
    pub judges: Vec<PoolH>,
    pub own_vote_violations: Vec<(String, String)>,
    /// blocks each real node's pool asked the repair service for
    pub repair_requested: Vec<BTreeSet<BlockId>>,
    /// finalization events of each real node's pool
    pub fins: Vec<Vec<alpenglow::consensus::verif::VerifFinalization>>,
}

#[derive(Clone, Debug)]
pub enum CAct {
    Byz(usize, usize),
    Forge(usize, usize),
    Relay(usize, usize),
    Block(usize, usize),
    Invalid(usize, usize),
    Timer(usize, usize),
}

impl ClusterSys {
    pub fn new(name: &str, epoch: Arc<Epoch>, nodes: Vec<usize>, byz: usize, alpha: ClusterAlphabet) -> Self {
        let mut factory = Factory::new(epoch.clone());
        for v in &alpha.byz_votes {
            factory.prepare_vote(v);
        }
        let max_slot = alpha.forge.iter().map(|t| t.1).chain(alpha.blocks.iter().map(|b| b.0.slot)).max().unwrap_or(1);
        Self { name: name.to_string(), epoch, nodes, byz, alpha, factory, max_slot, max_blk: 1, max_msgs: 24, prefix: Vec::new() }
    }

    fn h(&self) -> usize {
        self.nodes.len()
    }

    fn per_node(&self) -> usize {
        self.alpha.byz_votes.len() + self.alpha.forge.len() + self.h() + self.alpha.blocks.len() + self.alpha.invalid.len() + self.alpha.windows.len()
    }

    pub fn decode(&self, a: u16) -> CAct {
        let a = a as usize;
        let i = a / self.per_node();
        let mut r = a % self.per_node();
        if r < self.alpha.byz_votes.len() {
            return CAct::Byz(i, r);
        }
        r -= self.alpha.byz_votes.len();
        if r < self.alpha.forge.len() {
            return CAct::Forge(i, r);
        }
        r -= self.alpha.forge.len();
        if r < self.h() {
            return CAct::Relay(i, r);
        }
        r -= self.h();
        if r < self.alpha.blocks.len() {
            return CAct::Block(i, r);
        }
        r -= self.alpha.blocks.len();
        if r < self.alpha.invalid.len() {
            return CAct::Invalid(i, r);
        }
        r -= self.alpha.invalid.len();
        CAct::Timer(i, r)
    }

    /// Did real node `n` (index into `nodes`) cast a vote of `kind` for (slot, blk)?
    fn cast(&self, w: &ClusterWorld, n: usize, kind: VK, slot: u64, blk: u8) -> bool {
        let tag = match kind { VK::Notar => 0u8, VK::NotarFb => 1, VK::Skip => 2, VK::SkipFb => 3, VK::Final => 4 };
        w.emitted[n].iter().any(|m| match m {
            ConsensusMessage::Vote(v) => {
                vote_tag(v) == tag && v.slot().inner() == slot && v.block_hash().is_none_or(|h| *h == blk_hash(Blk { slot, idx: blk }))
            }
            _ => false,
        })
    }

    /// Strongest certificate formable from what has really been signed.
    pub fn forge_spec(&self, w: &ClusterWorld, (kind, slot, blk): (CK, u64, u8)) -> Option<CertSpec> {
        let (prim, fall) = match kind {
            CK::Notar | CK::FastFinal => (VK::Notar, None),
            CK::NotarFb => (VK::Notar, Some(VK::NotarFb)),
            CK::Skip => (VK::Skip, Some(VK::SkipFb)),
            CK::Final => (VK::Final, None),
        };
        let overlap = blk & 0x80 != 0 && matches!(kind, CK::Skip | CK::NotarFb);
        let blk = blk & 0x7f;
        let b = if matches!(kind, CK::Skip | CK::Final) { 0 } else { blk };
        let mut s1 = 1u32 << self.byz;
        let mut s2 = 0u32;
        for (n, v) in self.nodes.iter().enumerate() {
            if self.cast(w, n, prim, slot, b) {
                s1 |= 1 << v;
            } else if fall.is_some_and(|f| self.cast(w, n, f, slot, b)) {
                s2 |= 1 << v;
            }
        }
        let stake: u64 = (0..self.epoch.n()).filter(|i| (s1 | s2) >> i & 1 == 1).map(|i| self.epoch.stakes[i]).sum();
        let need = if kind == CK::FastFinal { 4 } else { 3 };
        if overlap {
            if self.epoch.meets(stake, need, 5) || !self.epoch.meets(stake + self.epoch.stakes[self.byz], need, 5) {
                return None;
            }
            return Some(CertSpec { kind, slot, blk: b, s1, s2: s2 | 1 << self.byz });
        }
        if !self.epoch.meets(stake, need, 5) {
            return None;
        }
        Some(CertSpec { kind, slot, blk: b, s1, s2 })
    }

    fn collect(&self, w: &mut ClusterWorld, n: usize) {
        for m in w.cores[n].take_out() {
            if let ConsensusMessage::Vote(v) = &m {
                let found = w.mons[n].observe_vote(v, self.nodes[n]);
                w.own_vote_violations.extend(found);
                match validate_vote_cached(v, &self.epoch) {
                    None => w.own_vote_violations.push(("C05:own-vote-invalid".to_string(), "own vote fails validation".to_string())),
                    Some(vv) => {
                        let (r, _) = w.judges[n].add_vote(vv);
                        let (name, off) = verdict_of(&r);
                        if name == "Slashable" {
                            w.own_vote_violations.push((format!("C05:own-votes-slashable:{}", off.unwrap_or_default()), format!("the votes of real node v{} form a slashable combination at a fresh pool: {v:?}", self.nodes[n])));
                        }
                    }
                }
            }
            if w.emitted[n].len() < w.msg_cap {
                w.emitted[n].push(m);
            } else {
                w.out_of_scope = true;
            }
        }
    }

    fn settle(&self, w: &mut ClusterWorld, n: usize) {
        while !w.cores[n].q.is_empty() {
            w.cores[n].votor_step();
            self.collect(w, n);
        }
    }

    fn feed(&self, w: &mut ClusterWorld, n: usize, m: &ConsensusMessage) {
        let o = match m {
            ConsensusMessage::Vote(v) => match validate_vote_cached(v, &self.epoch) {
                Some(vv) => w.cores[n].pool.add_vote(vv).1,
                None => Out::default(),
            },
            ConsensusMessage::Cert(c) => match validate_cert_cached(c, &self.epoch) {
                Some(vc) => w.cores[n].pool.add_cert(vc).1,
                None => Out::default(),
            },
        };
        w.fins[n].extend(o.fins);
        w.repair_requested[n].extend(o.repairs);
        for e in o.events {
            w.mons[n].observe_pool_event(&e);
            w.cores[n].q.push_back(e);
        }
        self.settle(w, n);
    }


    pub fn init_bare(&self) -> ClusterWorld {
        let h = self.h();
        ClusterWorld {
            cores: self.nodes.iter().map(|v| Core::new(&self.epoch, *v)).collect(),
            emitted: vec![Vec::new(); h],
            next: vec![vec![0; h]; h],
            byz_delivered: vec![vec![false; self.alpha.byz_votes.len()]; h],
            forged: vec![vec![false; self.alpha.forge.len()]; h],
            blocks_delivered: vec![vec![false; self.alpha.blocks.len()]; h],
            invalid_delivered: vec![vec![false; self.alpha.invalid.len()]; h],
            blocks_known: BTreeMap::new(),
            out_of_scope: false,
            msg_cap: self.max_msgs,
            fins: vec![Vec::new(); h],
            repair_requested: vec![BTreeSet::new(); h],
            mons: (0..h).map(|_| crate::nodesys::Mon::default()).collect(),
            judges: self.nodes.iter().map(|_| PoolH::new(&self.epoch, self.byz)).collect(),
            own_vote_violations: Vec::new(),
        }
    }

    fn deliver_block(&self, w: &mut ClusterWorld, i: usize, k: usize) {
        w.blocks_delivered[i][k] = true;
        let (b, p) = self.alpha.blocks[k];
        let slot = Slot::new(b.slot);
        if w.cores[i].first_shred.insert(b.slot) {
            w.cores[i].blockstore_event(BlockstoreEvent::FirstShred(slot));
        }
        w.blocks_known.insert(blk_id(b), blk_id(p));
        w.mons[i].blocks_known.insert(blk_id(b), blk_id(p));
        w.cores[i].blockstore_event(BlockstoreEvent::Block { slot, block_info: BlockInfo::verif_new(blk_hash(b), blk_id(p)) });
        self.collect(w, i);
        let o = w.cores[i].pool.add_block(blk_id(b), blk_id(p));
        w.fins[i].extend(o.fins);
        w.repair_requested[i].extend(o.repairs);
        for e in o.events {
            w.mons[i].observe_pool_event(&e);
            w.cores[i].q.push_back(e);
        }
        self.settle(w, i);
    }

    /// Fair completion ("the network becomes timely and the Byzantine validator falls silent"):
    /// every pending broadcast is delivered in FIFO order to every real node, every block some
    /// real node holds reaches the others (dissemination / repair), and whenever nothing is in
    /// flight the next timeout of every armed window of the alphabet fires.  Runs until nothing
    /// changes.  Returns the number of rounds.
    pub fn fair_completion(&self, w: &mut ClusterWorld, timeouts_first: bool) -> usize {
        verif_capture_timeouts(true);
        w.msg_cap = 400;
        let h = self.h();
        let mut rounds = 0;
        if timeouts_first {
            // the (Byzantine) leader's blocks reach the remaining nodes only after those nodes
            // have run out of patience: every node that holds no block of the window times out first
            for i in 0..h {
                if (0..self.alpha.blocks.len()).all(|k| !w.blocks_delivered[i][k]) {
                    for win in &self.alpha.windows {
                        while w.cores[i].timers.get(win).is_some_and(|s| *s < 5) {
                            w.cores[i].fire_timer(*win);
                            self.collect(w, i);
                        }
                    }
                }
            }
        }
        loop {
            rounds += 1;
            let mut progress = false;
            for k in 0..self.alpha.blocks.len() {
                if (0..h).any(|i| w.blocks_delivered[i][k]) {
                    for i in 0..h {
                        // order (a): dissemination eventually reaches everybody; order (b): the
                        // (Byzantine) leader sends nothing more, a node obtains a block it lacks
                        // only through the repair its own pool asked for
                        let wanted = !timeouts_first || w.repair_requested[i].contains(&blk_id(self.alpha.blocks[k].0));
                        if !w.blocks_delivered[i][k] && wanted {
                            self.deliver_block(w, i, k);
                            progress = true;
                        }
                    }
                }
            }
            if self.deliver_all_messages(w) {
                progress = true;
            }
            if !progress {
                for i in 0..h {
                    for win in &self.alpha.windows {
                        if w.cores[i].timers.get(win).is_some_and(|s| *s < 5) {
                            w.cores[i].fire_timer(*win);
                            self.collect(w, i);
                            progress = true;
                        }
                    }
                }
            }
            if !progress || rounds > 60 || w.out_of_scope {
                return rounds;
            }
        }
    }

    /// Delivers everything in flight (FIFO per link) until nothing is left.
    fn deliver_all_messages(&self, w: &mut ClusterWorld) -> bool {
        let h = self.h();
        let mut any = false;
        loop {
            let mut moved = false;
            for i in 0..h {
                for j in 0..h {
                    while w.next[i][j] < w.emitted[j].len() {
                        let m = w.emitted[j][w.next[i][j]].clone();
                        w.next[i][j] += 1;
                        self.feed(w, i, &m);
                        moved = true;
                    }
                }
            }
            if !moved {
                return any;
            }
            any = true;
        }
    }

    /// Delivers everything in flight one message per link and round (so that, e.g., every node has
    /// everybody's votes before it sees anybody's certificates).
    fn deliver_all_messages_round_robin(&self, w: &mut ClusterWorld) {
        let h = self.h();
        loop {
            let mut moved = false;
            for i in 0..h {
                for j in 0..h {
                    if w.next[i][j] < w.emitted[j].len() {
                        let m = w.emitted[j][w.next[i][j]].clone();
                        w.next[i][j] += 1;
                        self.feed(w, i, &m);
                        moved = true;
                    }
                }
            }
            if !moved {
                return;
            }
        }
    }

    /// First slot of the window after the last window of the alphabet.
    pub fn next_window_start(&self) -> u64 {
        self.alpha.windows.iter().max().copied().unwrap_or(0) + alpenglow::types::SLOTS_PER_WINDOW
    }

    /// After fair completion: the window that follows has a *correct* leader (real node `leader`)
    /// and the network is timely. The leader builds on a parent its own pool announced as ready
    /// (the highest or the lowest one), its four blocks reach every real node in order, everything
    /// in flight is delivered after each block, and no timeout of the window fires.
    /// Returns the first slot of the window and the parent, or None if the stage does not apply.
    pub fn correct_leader_window(&self, w: &mut ClusterWorld, leader: usize, highest: bool) -> Option<(u64, BlockId)> {
        self.correct_leader_window_with(w, leader, highest, false)
    }

    /// `round_robin`: messages are delivered one per link and round instead of link by link.
    pub fn correct_leader_window_with(&self, w: &mut ClusterWorld, leader: usize, highest: bool, round_robin: bool) -> Option<(u64, BlockId)> {
        verif_capture_timeouts(true);
        let f = self.next_window_start();
        if self.alpha.blocks.iter().any(|(b, _)| b.slot >= f) {
            return None;
        }
        let mut ready: Vec<BlockId> = w.cores[leader].pool.pool.parents_ready(Slot::new(f)).iter().cloned().collect();
        ready.retain(|p| w.mons[leader].parent_ready.contains(&(f, p.clone())));
        ready.sort();
        let parent = if highest { ready.last()?.clone() } else { ready.first()?.clone() };
        let mut prev = parent.clone();
        for k in 0..alpenglow::types::SLOTS_PER_WINDOW {
            let b = Blk { slot: f + k, idx: 0 };
            let slot = Slot::new(b.slot);
            for i in 0..self.h() {
                if w.cores[i].first_shred.insert(b.slot) {
                    w.cores[i].blockstore_event(BlockstoreEvent::FirstShred(slot));
                }
                w.blocks_known.insert(blk_id(b), prev.clone());
                w.mons[i].blocks_known.insert(blk_id(b), prev.clone());
                w.cores[i].blockstore_event(BlockstoreEvent::Block { slot, block_info: BlockInfo::verif_new(blk_hash(b), prev.clone()) });
                self.collect(w, i);
                let o = w.cores[i].pool.add_block(blk_id(b), prev.clone());
                w.fins[i].extend(o.fins);
                w.repair_requested[i].extend(o.repairs);
                for e in o.events {
                    w.mons[i].observe_pool_event(&e);
                    w.cores[i].q.push_back(e);
                }
                self.settle(w, i);
            }
            if round_robin {
                self.deliver_all_messages_round_robin(w);
            } else {
                self.deliver_all_messages(w);
            }
            prev = blk_id(b);
        }
        Some((f, parent))
    }

    fn descends(&self, w: &ClusterWorld, mut child: Blk, anc: Blk) -> bool {
        loop {
            if child == anc {
                return true;
            }
            if child.slot <= anc.slot {
                return false;
            }
            let Some(p) = w.blocks_known.get(&blk_id(child)) else { return false };
            let Some(idx) = blk_idx_of(p.0.inner(), &p.1, self.max_blk) else { return false };
            child = Blk { slot: p.0.inner(), idx };
        }
    }

    /// Agreement oracle: (a) the real nodes' own pools, (b) observers fed every formable certificate.
    pub fn oracle(&self, w: &ClusterWorld, out: &mut StepOutcome) {
        // formable certificates
        let mut triples = Vec::new();
        for s in 1..=self.max_slot {
            for b in 0..=self.max_blk {
                triples.push((CK::Notar, s, b));
                triples.push((CK::NotarFb, s, b));
                triples.push((CK::FastFinal, s, b));
            }
            triples.push((CK::Skip, s, 0));
            triples.push((CK::Final, s, 0));
            // adversarial shapes a correct validator must refuse: the Byzantine signer in both halves
            triples.push((CK::Skip, s, 0x80));
            for b in 0..=self.max_blk {
                triples.push((CK::NotarFb, s, b | 0x80));
            }
        }
        let certs: Vec<(CertSpec, Cert)> = triples
            .into_iter()
            .filter_map(|t| self.forge_spec(w, t))
            .map(|sp| { let c = self.factory.raw_cert(&sp); (sp, c) })
            .filter(|(_, c)| validate_cert_cached(c, &self.epoch).is_some())
            .collect();
        let has = |k: CK, s: u64| certs.iter().any(|(c, _)| c.kind == k && c.slot == s);
        let mut finals: Vec<Blk> = Vec::new();
        let mut suspicious = false;
        for s in 1..=self.max_slot {
            let mut f: Vec<u8> = certs.iter().filter(|(c, _)| c.slot == s && c.kind == CK::FastFinal).map(|(c, _)| c.blk).collect();
            if has(CK::Final, s) {
                f.extend(certs.iter().filter(|(c, _)| c.slot == s && c.kind == CK::Notar).map(|(c, _)| c.blk));
            }
            f.sort();
            f.dedup();
            if (!f.is_empty() && has(CK::Skip, s)) || f.len() > 1 {
                suspicious = true;
            }
            finals.extend(f.into_iter().map(|b| Blk { slot: s, idx: b }));
        }
        for a in &finals {
            for b in &finals {
                if a.slot < b.slot && !self.descends(w, *b, *a) {
                    suspicious = true;
                }
            }
        }
        if !suspicious {
            return;
        }
        let e: &Epoch = &self.epoch;
        let valid: Vec<(Cert, alpenglow::consensus::ValidatedCert)> = certs.iter().filter_map(|(_, c)| validate_cert_cached(c, e).map(|v| (c.clone(), v))).collect();
        let links: Vec<(BlockId, BlockId)> = w.blocks_known.iter().map(|(b, p)| (b.clone(), p.clone())).collect();
        let observer = (0..e.n()).find(|i| *i != self.byz && !self.nodes.contains(i)).unwrap_or(self.nodes[0]);
        let run = |order: &dyn Fn(&Cert) -> u8| {
            catch(std::panic::AssertUnwindSafe(|| {
                let mut p = PoolH::new(e, observer);
                let mut fins: Vec<(u64, BlockId)> = Vec::new();
                for (b, par) in &links {
                    if b.0 > par.0 {
                        let o = p.add_block(b.clone(), par.clone());
                        for f in o.fins {
                            fins.extend(f.finalized.iter().chain(f.implicitly_finalized.iter()).map(|b| (b.0.inner(), b.clone())));
                        }
                    }
                }
                let mut sorted: Vec<&(Cert, alpenglow::consensus::ValidatedCert)> = valid.iter().collect();
                sorted.sort_by_key(|(c, _)| (order(c), c.slot().inner()));
                for (_, v) in sorted {
                    let (_, o) = p.add_cert(v.clone());
                    for f in o.fins {
                        fins.extend(f.finalized.iter().chain(f.implicitly_finalized.iter()).map(|b| (b.0.inner(), b.clone())));
                    }
                }
                let skipped: BTreeSet<u64> = (1..=self.max_slot).filter(|s| p.pool.has_skip_cert(Slot::new(*s))).collect();
                (fins, skipped)
            }))
        };
        let mut all_fin: BTreeMap<u64, BTreeSet<BlockId>> = BTreeMap::new();
        let mut all_skip: BTreeSet<u64> = BTreeSet::new();
        for r in [run(&|c| match c { Cert::Final(_) | Cert::FastFinal(_) | Cert::Notar(_) => 0, _ => 1 }), run(&|c| match c { Cert::Skip(_) => 0, _ => 1 })] {
            match r {
                Ok((fins, skipped)) => {
                    for (s, b) in fins {
                        if s > 0 {
                            all_fin.entry(s).or_default().insert(b);
                        }
                    }
                    all_skip.extend(skipped);
                }
                Err(msg) => {
                    if msg.contains("consensus safety violation") {
                        out.push("C01:observer-detects-safety-violation".to_string(), format!("a fresh pool fed only certificates built from really signed votes trips its safety assertion: {msg:.120}"));
                    }
                }
            }
        }
        for (s, blks) in &all_fin {
            if blks.len() > 1 {
                out.push("C01:two-blocks-finalized-in-one-slot".to_string(), format!("observers finalize {} different blocks in slot {s} from really signed votes", blks.len()));
            }
            if all_skip.contains(s) {
                out.push("C01:slot-finalized-and-skip-certified".to_string(), format!("slot {s} is finalized at one correct observer while a valid skip certificate for it exists (both built from really signed votes)"));
            }
        }
        let fin_blocks: Vec<Blk> = all_fin.iter().flat_map(|(s, b)| b.iter().filter_map(move |id| blk_idx_of(*s, &id.1, self.max_blk).map(|i| Blk { slot: *s, idx: i }))).collect();
        for x in &fin_blocks {
            for y in &fin_blocks {
                if x.slot < y.slot && !self.descends(w, *y, *x) {
                    let mut c = *y;
                    let mut known_down = true;
                    while c.slot > x.slot {
                        match w.blocks_known.get(&blk_id(c)).and_then(|p| blk_idx_of(p.0.inner(), &p.1, self.max_blk).map(|i| Blk { slot: p.0.inner(), idx: i })) {
                            Some(p) => c = p,
                            None => { known_down = false; break; }
                        }
                    }
                    if known_down {
                        out.push("C01:finalized-blocks-not-on-one-chain".to_string(), format!("observers finalize {x:?} and {y:?}, but {y:?} does not descend from {x:?}"));
                    }
                }
            }
        }
    }
}

impl Sys for ClusterSys {
    type World = ClusterWorld;

    fn init(&self) -> ClusterWorld {
        let mut w = self.init_bare();
        if !self.prefix.is_empty() {
            verif_capture_timeouts(true);
            let h = self.h();
            for op in &self.prefix {
                match op {
                    PrefixOp::BlockToAll(k) => {
                        for i in 0..h {
                            self.deliver_block(&mut w, i, *k);
                        }
                    }
                    PrefixOp::DeliverAll => loop {
                        let mut moved = false;
                        for i in 0..h {
                            for j in 0..h {
                                while w.next[i][j] < w.emitted[j].len() {
                                    let m = w.emitted[j][w.next[i][j]].clone();
                                    w.next[i][j] += 1;
                                    self.feed(&mut w, i, &m);
                                    moved = true;
                                }
                            }
                        }
                        if !moved {
                            break;
                        }
                    },
                    PrefixOp::TimersOnce(win) => {
                        for i in 0..h {
                            w.cores[i].fire_timer(*win);
                            self.collect(&mut w, i);
                        }
                    }
                    PrefixOp::BlockTo(k, at) => {
                        for i in at {
                            self.deliver_block(&mut w, *i, *k);
                        }
                    }
                    PrefixOp::DeliverAmong(at) => loop {
                        let mut moved = false;
                        for i in at {
                            for j in at {
                                while w.next[*i][*j] < w.emitted[*j].len() {
                                    let m = w.emitted[*j][w.next[*i][*j]].clone();
                                    w.next[*i][*j] += 1;
                                    self.feed(&mut w, *i, &m);
                                    moved = true;
                                }
                            }
                        }
                        if !moved {
                            break;
                        }
                    },
                    PrefixOp::DeliverFromTo(j, i) => {
                        while w.next[*i][*j] < w.emitted[*j].len() {
                            let m = w.emitted[*j][w.next[*i][*j]].clone();
                            w.next[*i][*j] += 1;
                            self.feed(&mut w, *i, &m);
                        }
                    }
                    PrefixOp::TimersOnceAt(win, at) => {
                        for i in at {
                            w.cores[*i].fire_timer(*win);
                            self.collect(&mut w, *i);
                        }
                    }
                    PrefixOp::ByzTo(k, at) => {
                        for i in at {
                            w.byz_delivered[*i][*k] = true;
                            let vv = self.factory.vote(&self.alpha.byz_votes[*k]);
                            let o = w.cores[*i].pool.add_vote(vv).1;
                            w.fins[*i].extend(o.fins);
                            w.repair_requested[*i].extend(o.repairs);
                            for e in o.events {
                                w.mons[*i].observe_pool_event(&e);
                                w.cores[*i].q.push_back(e);
                            }
                            self.settle(&mut w, *i);
                        }
                    }
                }
            }
        }
        w
    }

    fn num_actions(&self) -> usize {
        self.h() * self.per_node()
    }

    fn enabled(&self, w: &ClusterWorld, _h: &[u16], a: u16) -> bool {
        if w.out_of_scope {
            return false;
        }
        match self.decode(a) {
            CAct::Byz(i, k) => !w.byz_delivered[i][k],
            CAct::Forge(i, k) => !w.forged[i][k] && self.forge_spec(w, self.alpha.forge[k]).is_some(),
            CAct::Relay(i, j) => w.next[i][j] < w.emitted[j].len(),
            CAct::Block(i, k) => !w.blocks_delivered[i][k],
            CAct::Invalid(i, k) => !w.invalid_delivered[i][k],
            CAct::Timer(i, k) => w.cores[i].timers.get(&self.alpha.windows[k]).is_some_and(|s| *s < 5),
        }
    }

    fn step(&self, w: &mut ClusterWorld, a: u16, check: bool) -> StepOutcome {
        verif_capture_timeouts(true);
        let mut out = StepOutcome::ok();
        let act = self.decode(a);
        let before: usize = w.emitted.iter().map(|e| e.len()).sum();
        let r = std::panic::catch_unwind(std::panic::AssertUnwindSafe(|| match act {
            CAct::Byz(i, k) => {
                w.byz_delivered[i][k] = true;
                let vv = self.factory.vote(&self.alpha.byz_votes[k]);
                let o = w.cores[i].pool.add_vote(vv).1;
                w.fins[i].extend(o.fins);
                w.repair_requested[i].extend(o.repairs);
                for e in o.events {
                    w.mons[i].observe_pool_event(&e);
                    w.cores[i].q.push_back(e);
                }
                self.settle(w, i);
            }
            CAct::Forge(i, k) => {
                w.forged[i][k] = true;
                if let Some(spec) = self.forge_spec(w, self.alpha.forge[k]) {
                    let c = self.factory.raw_cert(&spec);
                    self.feed(w, i, &ConsensusMessage::Cert(c));
                }
            }
            CAct::Relay(i, j) => {
                let m = w.emitted[j][w.next[i][j]].clone();
                w.next[i][j] += 1;
                self.feed(w, i, &m);
            }
            CAct::Block(i, k) => self.deliver_block(w, i, k),
            CAct::Invalid(i, k) => {
                w.invalid_delivered[i][k] = true;
                w.cores[i].blockstore_event(BlockstoreEvent::InvalidBlock(Slot::new(self.alpha.invalid[k])));
                self.collect(w, i);
            }
            CAct::Timer(i, k) => {
                w.cores[i].fire_timer(self.alpha.windows[k]);
                self.collect(w, i);
            }
        }));
        if let Err(p) = r {
            let msg = p.downcast_ref::<String>().cloned().or_else(|| p.downcast_ref::<&str>().map(|s| s.to_string())).unwrap_or_default();
            // judged on evidence: a safety assertion inside a correct node's own pool is reported
            // only if the votes really signed support a conflict (checked below via the oracle)
            if msg.contains("consensus safety violation") {
                let mut o2 = StepOutcome::ok();
                self.oracle(w, &mut o2);
                if o2.violations.is_empty() {
                    out.push("C01:spurious-safety-assertion-in-correct-node".to_string(), format!("a correct node's pool panicked with '{msg:.80}' although the votes really signed do not support any conflict"));
                } else {
                    out.violations.extend(o2.violations);
                }
            } else {
                out.push(format!("C01:node-panics:{}", crate::engine::panic_class(&msg)), format!("node core panicked: {msg}"));
            }
            out.fatal = true;
            return out;
        }
        let after: usize = w.emitted.iter().map(|e| e.len()).sum();
        if check && after > before && !w.out_of_scope {
            self.oracle(w, &mut out);
        }
        // the real nodes' own finalization views must agree as well
        if check {
            let fins: Vec<u64> = w.cores.iter().map(|c| c.pool.pool.finalized_slot().inner()).collect();
            let _ = fins;
        }
        if !out.violations.is_empty() {
            out.fatal = true;
        }
        out
    }

    fn digest(&self, w: &ClusterWorld) -> u64 {
        let mut h = new_hasher();
        for c in &w.cores {
            c.digest(&mut h);
        }
        for e in &w.emitted {
            for m in e {
                match m {
                    ConsensusMessage::Vote(v) => (0u8, v.slot(), v.block_hash(), vote_tag(v)).hash(&mut h),
                    ConsensusMessage::Cert(c) => (1u8, c.slot(), c.block_hash(), cert_kind(c)).hash(&mut h),
                }
            }
            0xffu8.hash(&mut h);
        }
        w.next.hash(&mut h);
        w.byz_delivered.hash(&mut h);
        w.forged.hash(&mut h);
        w.blocks_delivered.hash(&mut h);
        w.invalid_delivered.hash(&mut h);
        w.out_of_scope.hash(&mut h);
        h.finish()
    }

    fn describe(&self, a: u16) -> String {
        match self.decode(a) {
            CAct::Byz(i, k) => format!("node v{}: receives Byzantine {}", self.nodes[i], self.alpha.byz_votes[k].show()),
            CAct::Forge(i, k) => format!("node v{}: receives an adversary-aggregated {:?} certificate for (s{}, b{})", self.nodes[i], self.alpha.forge[k].0, self.alpha.forge[k].1, self.alpha.forge[k].2),
            CAct::Relay(i, j) => format!("node v{}: receives the next broadcast of node v{}", self.nodes[i], self.nodes[j]),
            CAct::Block(i, k) => format!("node v{}: block (s{},b{}) with parent (s{},b{}) arrives", self.nodes[i], self.alpha.blocks[k].0.slot, self.alpha.blocks[k].0.idx, self.alpha.blocks[k].1.slot, self.alpha.blocks[k].1.idx),
            CAct::Invalid(i, k) => format!("node v{}: InvalidBlock(s{})", self.nodes[i], self.alpha.invalid[k]),
            CAct::Timer(i, k) => format!("node v{}: next timeout of window {}", self.nodes[i], self.alpha.windows[k]),
        }
    }

    fn outcome(&self, w: &ClusterWorld) -> u64 {
        let mut h = new_hasher();
        for e in &w.emitted {
            for m in e {
                if let ConsensusMessage::Vote(v) = m {
                    (v.slot(), v.block_hash(), vote_tag(v)).hash(&mut h);
                }
            }
            0xffu8.hash(&mut h);
        }
        h.finish()
    }
}

/// Liveness wrapper (C02): every state the prefix exploration reaches is completed fairly and
/// the decided-window oracle is evaluated on the completed world.
pub struct LiveSys {
    pub inner: ClusterSys,
    /// judge completed worlds for agreement (C01) instead of progress (C02)
    pub safety: bool,
    /// judge only the real nodes' own votes (C05), in the prefix and during completion
    pub own_votes: bool,
    pub done: std::sync::Mutex<std::collections::HashSet<u64>>,
    pub completions: std::sync::atomic::AtomicUsize,
    pub max_rounds: std::sync::atomic::AtomicUsize,
    /// outcomes of completions: (which slots ended notarized / skipped / both)
    pub shapes: std::sync::Mutex<BTreeSet<String>>,
    /// correct-leader windows run after fair completions
    pub windows_run: std::sync::atomic::AtomicUsize,
    pub window_done: std::sync::Mutex<std::collections::HashSet<u64>>,
}

pub struct LiveWorld {
    pub w: ClusterWorld,
    pub hist: Vec<u16>,
}

impl LiveSys {
    pub fn new(inner: ClusterSys) -> Self {
        Self { inner, safety: false, own_votes: false, done: Default::default(), completions: Default::default(), max_rounds: Default::default(), shapes: Default::default(), windows_run: Default::default(), window_done: Default::default() }
    }

    /// Agreement on the completed world: observers over everything really signed, plus the real
    /// nodes' own pools against each other.
    fn judge_safety(&self, w: &ClusterWorld, out: &mut StepOutcome) {
        if w.out_of_scope {
            return;
        }
        self.inner.oracle(w, out);
        let mut shape = String::new();
        for s in 1..=self.inner.max_slot.max(3) {
            let fin: Vec<bool> = w.cores.iter().map(|c| c.pool.pool.finalized_slot().inner() >= s).collect();
            let skip: Vec<bool> = w.cores.iter().map(|c| c.pool.pool.has_skip_cert(Slot::new(s))).collect();
            shape.push(match (fin.iter().any(|x| *x), skip.iter().any(|x| *x)) { (true, true) => 'X', (true, false) => 'F', (false, true) => 'S', _ => '-' });
        }
        self.shapes.lock().unwrap().insert(shape);
        // finalization logs of the real nodes: no two different blocks per slot
        let mut per_slot: BTreeMap<u64, BTreeSet<BlockId>> = BTreeMap::new();
        for fl in &w.fins {
            for f in fl {
                for b in f.finalized.iter().chain(f.implicitly_finalized.iter()) {
                    per_slot.entry(b.0.inner()).or_default().insert(b.clone());
                }
            }
        }
        for (s, b) in per_slot {
            if s > 0 && b.len() > 1 {
                out.push("C01:two-blocks-finalized-in-one-slot".to_string(), format!("after fair completion the real nodes finalized {} different blocks in slot {s}", b.len()));
            }
        }
    }

    /// The window after stabilisation (correct leader, timely network, no timeout fired): every
    /// real node voted for every block and finalized all of them; nobody voted skip.
    fn judge_window(&self, w: &ClusterWorld, f: u64, parent: &BlockId, leader: usize, out: &mut StepOutcome) {
        if w.out_of_scope {
            return;
        }
        let last = f + alpenglow::types::SLOTS_PER_WINDOW - 1;
        for (n, core) in w.cores.iter().enumerate() {
            let pool = &core.pool.pool;
            let fin = pool.finalized_slot().inner();
            let votes: Vec<String> = (f..=last).map(|s| format!("{s}:{:?}", w.mons[n].votes.get(&s).map(|v| v.iter().map(|r| match r { crate::nodesys::VRec::Notar(_) => "notar", crate::nodesys::VRec::NotarFb(_) => "notar-fb", crate::nodesys::VRec::Skip => "skip", crate::nodesys::VRec::SkipFb => "skip-fb", crate::nodesys::VRec::Final => "final" }).collect::<Vec<_>>()).unwrap_or_default())).collect();
            let skipped = (f..=last).any(|s| w.mons[n].votes.get(&s).is_some_and(|v| v.iter().any(|r| matches!(r, crate::nodesys::VRec::Skip | crate::nodesys::VRec::SkipFb))));
            if skipped {
                out.push(
                    "C02:skip-vote-in-timely-correct-leader-window".to_string(),
                    format!("after stabilisation real node v{leadv} led slots {f}..={last} on the ready parent of slot {}; no timeout fired, yet node v{} voted skip: {votes:?}", parent.0, self.inner.nodes[n], leadv = self.inner.nodes[leader]),
                );
                return;
            }
            // with at least 80 % of the stake correct and responsive (the real nodes of the system) each
            // block is finalized in one round: the node holds a fast-finalization certificate for it
            let real: u64 = self.inner.nodes.iter().map(|v| self.inner.epoch.stakes[*v]).sum();
            let total: u64 = self.inner.epoch.stakes.iter().sum();
            if real * 5 >= total * 4 {
                // certificates a node creates or receives are re-broadcast by it (the pool itself may
                // have pruned the slot already)
                let ff: BTreeSet<u64> = w.emitted[n]
                    .iter()
                    .filter_map(|m| match m {
                        ConsensusMessage::Cert(c @ alpenglow::consensus::Cert::FastFinal(_)) => Some(c.slot().inner()),
                        _ => None,
                    })
                    .chain(pool.verif_certs().iter().filter(|c| matches!(c, alpenglow::consensus::Cert::FastFinal(_))).map(|c| c.slot().inner()))
                    .collect();
                if let Some(s) = (f..=last).find(|s| !ff.contains(s)) {
                    out.push(
                        "C02:no-fast-finalization-with-80-percent-responsive".to_string(),
                        format!("after stabilisation the real nodes ({real} of {total} stake) all voted for the correct leader's blocks of slots {f}..={last}, but node v{} neither holds nor ever broadcast a fast-finalization certificate for slot {s}; its votes in the window: {votes:?}", self.inner.nodes[n]),
                    );
                    return;
                }
            }
            if fin < last {
                out.push(
                    "C02:correct-leader-window-not-finalized-after-stabilisation".to_string(),
                    format!(
                        "after stabilisation real node v{} led slots {f}..={last} on the ready parent of slot {} (announced to its Votor); every block reached every node in order and every message was delivered, but node v{} has finalized slot {fin} only; its votes in the window: {votes:?}",
                        self.inner.nodes[leader], parent.0, self.inner.nodes[n]
                    ),
                );
                return;
            }
        }
    }

    fn judge_completed(&self, w: &ClusterWorld, out: &mut StepOutcome) {
        use std::sync::atomic::Ordering::Relaxed;
        let _ = Relaxed;
        if self.own_votes {
            for (k, what) in &w.own_vote_violations {
                out.push(k.clone(), format!("{what} [during fair completion]"));
            }
            let shape: String = w.emitted.iter().map(|e| e.iter().filter(|m| matches!(m, ConsensusMessage::Vote(_))).count().to_string()).collect::<Vec<_>>().join("/");
            self.shapes.lock().unwrap().insert(shape);
            return;
        }
        if self.safety {
            return self.judge_safety(w, out);
        }
        if w.out_of_scope {
            return;
        }
        let mut shape = String::new();
        for (n, core) in w.cores.iter().enumerate() {
            let pool = &core.pool.pool;
            let fin = pool.finalized_slot().inner();
            for win in &self.inner.alpha.windows {
                let first = (*win).max(1);
                let last = win + 3;
                for s in first..=last {
                    let skip = pool.has_skip_cert(Slot::new(s));
                    let notar = pool.has_notar_or_fallback_cert(Slot::new(s));
                    if n == 0 {
                        shape.push(match (s <= fin, notar, skip) { (true, _, _) => 'F', (_, true, true) => 'B', (_, true, false) => 'N', (_, false, true) => 'S', _ => '?' });
                    }
                    if !(s <= fin || skip || notar) {
                        out.push(
                            "C02:slot-undecided-after-fair-completion".to_string(),
                            format!("after every message was delivered and every timeout of the window fired, node v{} holds neither a skip nor a notarization(-fallback) certificate for slot {s} (finalized slot {fin})", self.inner.nodes[n]),
                        );
                        return;
                    }
                }
                // what the pool considers a ready parent for the next window must have been announced
                // to Votor (otherwise the node refuses the next leader's block on that parent)
                for parent in pool.parents_ready(Slot::new(last + 1)) {
                    if !w.mons[n].parent_ready.contains(&(last + 1, parent.clone())) {
                        out.push(
                            "C02:ready-parent-never-announced-to-votor".to_string(),
                            format!("after fair completion node v{}'s pool lists the block of slot {} as a ready parent for slot {} but never emitted ParentReady for it", self.inner.nodes[n], parent.0, last + 1),
                        );
                        return;
                    }
                }
                if pool.parents_ready(Slot::new(last + 1)).is_empty() && fin <= last {
                    out.push(
                        "C02:next-window-has-no-ready-parent".to_string(),
                        format!("after fair completion node v{} has every slot of window {win} certified but no ready parent for slot {}: the next leader can never propose", self.inner.nodes[n], last + 1),
                    );
                    return;
                }
            }
        }
        // the real nodes agree on what was decided
        self.shapes.lock().unwrap().insert(shape);
    }
}

impl Sys for LiveSys {
    type World = LiveWorld;

    fn init(&self) -> LiveWorld {
        LiveWorld { w: self.inner.init(), hist: Vec::new() }
    }
    fn num_actions(&self) -> usize {
        self.inner.num_actions()
    }
    fn enabled(&self, w: &LiveWorld, h: &[u16], a: u16) -> bool {
        // certificates the adversary aggregates are covered through Byzantine votes reaching real nodes
        self.inner.enabled(&w.w, h, a)
    }
    fn step(&self, w: &mut LiveWorld, a: u16, check: bool) -> StepOutcome {
        w.hist.push(a);
        let mut out = self.inner.step(&mut w.w, a, self.safety && check);
        if self.safety && (!check || out.fatal || w.w.out_of_scope) {
            return out;
        }
        if self.own_votes {
            out.violations.clear();
            for (k, what) in std::mem::take(&mut w.w.own_vote_violations) {
                out.push(k, what);
            }
        }
        // panics of node cores are progress failures as well; safety keys stay with C01
        if !self.safety && !self.own_votes {
            out.violations.retain(|(k, _)| !k.starts_with("C01:") || k.starts_with("C01:node-panics"));
            for v in out.violations.iter_mut() {
                v.0 = v.0.replace("C01:node-panics", "C02:node-panics");
            }
        }
        if !check || out.fatal || w.w.out_of_scope {
            return out;
        }
        let d = self.inner.digest(&w.w);
        if !self.done.lock().unwrap().insert(d) && !crate::engine::replaying() {
            return out;
        }
        // rebuild a copy of the world and complete it fairly
        let mut copy = self.inner.init();
        for x in &w.hist {
            let _ = self.inner.step(&mut copy, *x, false);
        }
        for timeouts_first in [false, true] {
        if timeouts_first {
            copy = self.inner.init();
            for x in &w.hist {
                let _ = self.inner.step(&mut copy, *x, false);
            }
        }
        let r = std::panic::catch_unwind(std::panic::AssertUnwindSafe(|| self.inner.fair_completion(&mut copy, timeouts_first)));
        match r {
            Ok(rounds) => {
                self.completions.fetch_add(1, std::sync::atomic::Ordering::Relaxed);
                self.max_rounds.fetch_max(rounds, std::sync::atomic::Ordering::Relaxed);
                if rounds > 60 && (self.safety || self.own_votes) {
                } else if rounds > 60 {
                    out.push("C02:fair-completion-does-not-quiesce".to_string(), "after 60 rounds of delivering everything and firing timeouts the nodes are still producing new messages".to_string());
                } else {
                    self.judge_completed(&copy, &mut out);
                    if !self.safety && !self.own_votes && out.violations.is_empty() && !copy.out_of_scope {
                        // stabilisation has happened: the next window has a correct leader
                        let leader = if timeouts_first { self.inner.nodes.len() - 1 } else { 0 };
                        // what happens next depends on the node cores only (nothing is in flight)
                        let key = {
                            use std::hash::{Hash, Hasher};
                            let mut hh = crate::common::new_hasher();
                            for c in &copy.cores {
                                c.digest(&mut hh);
                            }
                            (leader, timeouts_first).hash(&mut hh);
                            hh.finish()
                        };
                        if !self.window_done.lock().unwrap().insert(key) && !crate::engine::replaying() {
                            continue;
                        }
                        copy.msg_cap = 700;
                        let r = std::panic::catch_unwind(std::panic::AssertUnwindSafe(|| self.inner.correct_leader_window_with(&mut copy, leader, !timeouts_first, timeouts_first)));
                        match r {
                            Ok(Some((f, parent))) => {
                                self.windows_run.fetch_add(1, std::sync::atomic::Ordering::Relaxed);
                                self.judge_window(&copy, f, &parent, leader, &mut out);
                            }
                            Ok(None) => {}
                            Err(p) => {
                                let msg = p.downcast_ref::<String>().cloned().or_else(|| p.downcast_ref::<&str>().map(|s| s.to_string())).unwrap_or_default();
                                out.push(format!("C02:node-panics-in-correct-leader-window:{}", crate::engine::panic_class(&msg)), format!("a node core panicked while the correct leader's blocks of the next window were delivered: {msg}"));
                            }
                        }
                    }
                }
            }
            Err(p) => {
                let msg = p.downcast_ref::<String>().cloned().or_else(|| p.downcast_ref::<&str>().map(|s| s.to_string())).unwrap_or_default();
                if self.own_votes {
                } else if self.safety {
                    if msg.contains("consensus safety violation") {
                        let mut o2 = StepOutcome::ok();
                        self.inner.oracle(&copy, &mut o2);
                        if o2.violations.is_empty() {
                            out.push("C01:spurious-safety-assertion-in-correct-node".to_string(), format!("during fair completion a correct node's pool panicked with '{msg:.80}' although the votes really signed do not support any conflict"));
                        } else {
                            out.violations.extend(o2.violations);
                        }
                    } else {
                        out.push(format!("C01:node-panics:{}", crate::engine::panic_class(&msg)), format!("node core panicked during fair completion: {msg}"));
                    }
                } else {
                    out.push(format!("C02:node-panics-during-completion:{}", crate::engine::panic_class(&msg)), format!("a node core panicked while the pending messages were delivered: {msg}"));
                }
            }
        }
        if !out.violations.is_empty() {
            for v in out.violations.iter_mut() {
                if timeouts_first {
                    v.1.push_str(" [completion: nodes without a block time out before the blocks reach them]");
                }
            }
            break;
        }
        }
        out
    }
    fn digest(&self, w: &LiveWorld) -> u64 {
        self.inner.digest(&w.w)
    }
    fn describe(&self, a: u16) -> String {
        self.inner.describe(a)
    }
    fn outcome(&self, w: &LiveWorld) -> u64 {
        self.inner.outcome(&w.w)
    }
}

#[allow(dead_code)]
fn unused(_: Vote) {}
