//! C07 / C08 / C18: multi-slot scenarios on one real pool, all delivery orders.

use std::sync::Arc;

use serde_json::{Value, json};

use crate::chainsys::ChainSys;
use crate::common::{Report, Tier, make_epoch};
use crate::engine::{BfsLimits, BfsStats, bfs};
use crate::pooldrv::*;
use crate::poolsys::{block, cert, votes};

const A: u8 = 0; // chain block
const X: u8 = 1; // orphan block

fn ff(s: u64, b: u8) -> Op { cert(CK::FastFinal, s, b, &[0, 1, 2], &[]) }
fn notar(s: u64, b: u8) -> Op { cert(CK::Notar, s, b, &[1, 2], &[]) }
fn nf(s: u64, b: u8) -> Op { cert(CK::NotarFb, s, b, &[1], &[2]) }
fn skip(s: u64) -> Op { cert(CK::Skip, s, 0, &[1], &[2]) }
fn fin(s: u64) -> Op { cert(CK::Final, s, 0, &[1, 2], &[]) }
fn link(s: u64, b: u8, ps: u64, pb: u8) -> Op { block(s, b, ps, pb) }

pub struct Scen {
    pub name: String,
    pub ops: Vec<Op>,
}

fn s(name: &str, ops: Vec<Op>) -> Scen {
    Scen { name: name.to_string(), ops }
}

/// Hand-picked scenarios, each safety-consistent per DESIGN.md A.6.
pub fn curated() -> Vec<Scen> {
    vec![
        s("fast-final-and-final-without-notar", vec![ff(1, A), fin(1), link(1, A, 0, 0), ff(2, A), fin(2), link(2, A, 1, A), skip(3)]),
        s("ff-chain-1-2-3", vec![ff(1, A), ff(2, A), ff(3, A), link(1, A, 0, 0), link(2, A, 1, A), link(3, A, 2, A)]),
        s("slow-final-with-gap", vec![notar(1, A), fin(1), skip(2), ff(3, A), link(3, A, 1, A), link(1, A, 0, 0), Op::Wait(4)]),
        s(
            "final-before-notar-children-before-parents",
            vec![fin(2), notar(2, A), ff(4, A), link(4, A, 2, A), link(2, A, 1, A), nf(1, A), skip(3)],
        ),
        s(
            "orphan-notar-in-implicitly-skipped-slot",
            vec![ff(4, A), link(4, A, 2, A), link(2, A, 1, A), notar(3, X), skip(3), notar(2, A), notar(1, A)],
        ),
        s("equivocation-notar-x-nf-a-then-child-of-a", vec![nf(3, A), notar(3, X), ff(4, A), link(4, A, 3, A), Op::Wait(8)]),
        s(
            "late-certs-for-implicitly-finalized-slot",
            vec![ff(3, A), link(3, A, 2, A), link(2, A, 1, A), notar(2, A), fin(2), nf(2, A), ff(1, A)],
        ),
        s(
            "window-handover-skips",
            vec![notar(1, A), skip(2), skip(3), notar(2, X), Op::Wait(4), skip(1), nf(3, A), link(3, A, 1, A)],
        ),
        s(
            "second-window-finalization-driven",
            vec![ff(5, A), link(5, A, 4, A), link(4, A, 2, A), link(2, A, 0, 0), skip(6), skip(7), Op::Wait(8), notar(4, A), skip(3)],
        ),
        s(
            "two-notar-fallback-certs-in-last-slot-of-window",
            vec![ff(1, A), link(1, A, 0, 0), notar(2, A), notar(3, A), nf(3, A), nf(3, X), Op::Wait(4), link(3, A, 2, A)],
        ),
        s(
            "equivocated-sibling-chain-late-links",
            vec![notar(1, A), notar(2, A), fin(2), link(2, X, 1, X), link(2, A, 1, A), link(1, A, 0, 0), link(1, X, 0, 0)],
        ),
        s(
            "sibling-of-fast-finalized-block",
            vec![ff(2, A), link(2, X, 1, X), link(2, A, 1, A), notar(1, A), link(1, X, 0, 0), link(1, A, 0, 0)],
        ),
        s(
            "sibling-with-older-parent",
            vec![ff(3, A), link(3, X, 1, A), link(3, A, 2, A), link(2, A, 1, A), notar(2, A), notar(1, A), link(1, A, 0, 0)],
        ),
        s(
            "sibling-of-implicitly-finalized-block",
            vec![ff(3, A), link(3, A, 2, A), link(2, X, 1, X), link(2, A, 1, A), notar(1, A), nf(1, X), link(1, X, 0, 0)],
        ),
        s(
            "abandoned-waiter-then-ready-parent-carried-over-a-skipped-window",
            vec![Op::WaitAbandoned(4), notar(3, A), skip(4), skip(5), skip(6), skip(7), Op::Wait(8)],
        ),
        s(
            "abandoned-waiter-finalization-driven",
            vec![Op::WaitAbandoned(4), ff(2, A), link(2, A, 1, A), skip(3), notar(1, A), skip(4), skip(5), skip(6), skip(7)],
        ),
        s(
            "children-of-an-uncertified-parent-on-both-sides-of-the-watermark",
            vec![ff(2, A), ff(3, A), link(2, X, 1, A), link(4, X, 1, A), ff(1, A), link(2, A, 1, A), link(3, A, 2, A)],
        ),
        s(
            "two-windows-skip-chain",
            vec![skip(1), skip(2), skip(3), skip(4), skip(5), skip(6), skip(7), notar(2, A), Op::Wait(8), Op::Wait(4)],
        ),
    ]
}

/// Scenarios where the certificates arise from votes (own = validator 0 included).
pub fn vote_built() -> Vec<Scen> {
    let n = VK::Notar;
    let f = VK::Final;
    let sk = VK::Skip;
    let cat = |parts: Vec<Vec<Op>>| parts.into_iter().flatten().collect::<Vec<Op>>();
    vec![
        s(
            "votes-ff-then-slow-final",
            cat(vec![
                votes(n, 1, A, &[0, 1, 2]),
                votes(n, 2, A, &[1, 2]),
                votes(f, 2, 0, &[1, 2]),
                vec![link(2, A, 1, A), link(1, A, 0, 0)],
            ]),
        ),
        s(
            "votes-own-notar-a-and-fallback-x-in-one-slot",
            cat(vec![
                votes(n, 1, A, &[0, 1]),
                votes(VK::NotarFb, 1, X, &[0, 2]),
                votes(sk, 2, 0, &[0, 1]),
                votes(VK::SkipFb, 3, 0, &[0]),
                votes(n, 3, A, &[0]),
            ]),
        ),
        s(
            "votes-own-notar-a-and-fallback-x-then-finalized",
            cat(vec![votes(n, 1, A, &[0, 1]), votes(VK::NotarFb, 1, X, &[0, 2]), votes(n, 2, A, &[0, 1, 2]), vec![link(2, A, 1, A)]]),
        ),
        // the highest finalized slot is fast-finalized from votes: the bundle proves it with the
        // fast-finalization certificate alone, which must be enough for the receiver's ready parents
        s("votes-fast-final-tip-last-slot-of-window", cat(vec![votes(n, 3, A, &[0, 1, 2]), vec![link(3, A, 2, A)]])),
        s(
            "votes-fast-final-tip-then-rest-of-window-skipped",
            cat(vec![votes(n, 1, A, &[0, 1, 2]), votes(sk, 2, 0, &[0, 1]), votes(sk, 3, 0, &[1, 2]), vec![link(1, A, 0, 0)]]),
        ),
        s(
            "votes-own-later-votes-and-skip",
            cat(vec![
                votes(n, 1, A, &[0, 1, 2]),
                votes(sk, 2, 0, &[0, 1]),
                votes(n, 3, A, &[0, 1]),
                votes(f, 3, 0, &[0]),
                vec![link(3, A, 1, A), Op::Wait(4)],
            ]),
        ),
    ]
}

/// Systematic family: per slot one variant from a menu; chain links follow the ground truth.
pub fn systematic(slots: u64, max_ops: usize) -> Vec<Scen> {
    // variant: (name, on_chain, ops builder)
    let menu: Vec<(&str, bool, fn(u64) -> Vec<Op>)> = vec![
        ("ff", true, |s| vec![ff(s, A)]),
        ("slow", true, |s| vec![notar(s, A), fin(s)]),
        ("notar", true, |s| vec![notar(s, A)]),
        ("nf", true, |s| vec![nf(s, A)]),
        ("bare", true, |_| vec![]),
        ("skip", false, |s| vec![skip(s)]),
        ("none", false, |_| vec![]),
        ("orphan", false, |s| vec![skip(s), notar(s, X)]),
        ("nf-vs-orphan-notar", true, |s| vec![nf(s, A), notar(s, X)]),
        ("two-nf", true, |s| vec![nf(s, A), nf(s, X)]),
        ("ff-sib", true, |s| vec![ff(s, A), link(s, X, s - 1, if s == 1 { 0 } else { X })]),
        ("slow-sib", true, |s| vec![notar(s, A), fin(s), link(s, X, s - 1, if s == 1 { 0 } else { X })]),
        ("notar-sib", true, |s| vec![notar(s, A), link(s, X, s - 1, if s == 1 { 0 } else { X })]),
    ];
    let mut out = Vec::new();
    let k = menu.len() as u64;
    let total = k.pow(slots as u32);
    for code in 0..total {
        let mut c = code;
        let mut ops = Vec::new();
        let mut name = String::new();
        let mut prev_chain: (u64, u8) = (0, 0);
        let mut chain_slots = 0;
        let mut has_direct = false;
        for slot in 1..=slots {
            let (vn, on, f) = &menu[(c % k) as usize];
            c /= k;
            name.push_str(vn);
            name.push('|');
            ops.extend(f(slot));
            if *on {
                ops.push(link(slot, A, prev_chain.0, prev_chain.1));
                prev_chain = (slot, A);
                chain_slots += 1;
                if vn.starts_with("ff") || vn.starts_with("slow") {
                    has_direct = true;
                }
            }
        }
        // keep scenarios in which something is finalized and some slot is off-chain or implicit
        if !has_direct || chain_slots == 0 || ops.len() > max_ops || ops.len() < 4 {
            continue;
        }
        out.push(Scen { name, ops });
    }
    out
}

pub fn run_scens(report: &Report, focus: &'static str, scens: Vec<Scen>, max_states: usize, secs_each: u64, total_secs: u64) -> Value {
    let epoch = Arc::new(make_epoch(&[1, 1, 1]));
    let mut total = BfsStats::default();
    let mut per = Vec::new();
    let mut samples = Vec::new();
    let mut all_exhausted = true;
    let mut skipped_for_time = 0;
    let n_scen = scens.len();
    for sc in scens {
        if report.elapsed() > total_secs as f64 {
            skipped_for_time += 1;
            all_exhausted = false;
            continue;
        }
        let sys = ChainSys::new(&sc.name, epoch.clone(), 0, sc.ops.clone(), focus);
        let limits = BfsLimits::new(sc.ops.len() + 1, max_states, secs_each);
        let st = bfs(&sys, &sc.name, &limits, report);
        all_exhausted &= st.frontier_exhausted;
        st.merge_into(&mut total);
        if per.len() < 40 {
            per.push(json!({
                "scenario": sc.name, "ops": sc.ops.iter().map(|o| o.show()).collect::<Vec<_>>(),
                "states": st.states, "transitions": st.transitions, "distinct_outcomes": st.distinct_outcomes,
                "capped": st.capped,
            }));
        }
        if samples.len() < 4 {
            samples.extend(st.samples.into_iter().take(1));
        }
    }
    println!(
        "  {focus}: scenarios={n_scen} states={} transitions={} outcomes={} capped={:?} skipped_for_time={skipped_for_time}",
        total.states, total.transitions, total.distinct_outcomes, total.capped
    );
    json!({
        "states": total.states,
        "transitions": total.transitions,
        "traces_validated_against_impl": total.transitions,
        "replayed_impl_steps": total.replayed_steps,
        "distinct_outcomes": total.distinct_outcomes,
        "exhaustive": all_exhausted,
        "capped": total.capped,
        "scenarios": n_scen,
        "scenarios_skipped_for_time": skipped_for_time,
        "bound": "every delivery order of every listed safety-consistent scenario (certificates, votes, block-parent links, waiter registrations), each input once",
        "families": per,
        "samples": samples,
    })
}

/// Scenarios with equivocated sibling blocks whose parent links are known (used by C01 too).
pub fn sibling_scens(tier: Tier) -> Vec<Scen> {
    let mut v: Vec<Scen> = curated().into_iter().filter(|s| s.name.contains("sibling")).collect();
    v.extend(systematic(3, tier.pick(9, 11)).into_iter().filter(|s| s.name.contains("-sib")));
    v
}

fn scen_set(tier: Tier) -> Vec<Scen> {
    let mut v = curated();
    v.extend(vote_built());
    match tier {
        Tier::Quick => {
            v.extend(systematic(3, 9));
        }
        Tier::Thorough => {
            v.extend(systematic(3, 11));
            let sys = systematic(4, 11);
            let step = (sys.len() / 1500).max(1);
            v.extend(sys.into_iter().step_by(step));
        }
    }
    v
}

pub fn run_c07(tier: Tier) -> i32 {
    let report = Report::new("C07", tier, "model_checking");
    let cov = run_scens(&report, "C07", scen_set(tier), tier.pick(400_000, 4_000_000), tier.pick(20, 120), tier.pick(50, 850));
    report.finish(cov)
}

pub fn run_c08(tier: Tier) -> i32 {
    let report = Report::new("C08", tier, "model_checking");
    let cov = run_scens(&report, "C08", scen_set(tier), tier.pick(400_000, 4_000_000), tier.pick(20, 120), tier.pick(50, 850));
    report.finish(cov)
}

/// The voting component forwards the whole bundle whatever its own pruning state.
fn votor_forwards_bundle(report: &Report) -> usize {
    use crate::nodesys::Core;
    use alpenglow::consensus::{Cert, ConsensusMessage, PoolEvent};
    use alpenglow::types::Slot;
    let epoch = Arc::new(make_epoch(&[1, 1, 1]));
    let mut f = Factory::new(epoch.clone());
    let cert_specs = [
        CertSpec { kind: CK::FastFinal, slot: 1, blk: 0, s1: 0b111, s2: 0 },
        CertSpec { kind: CK::Notar, slot: 2, blk: 0, s1: 0b110, s2: 0 },
        CertSpec { kind: CK::Final, slot: 2, blk: 0, s1: 0b110, s2: 0 },
        CertSpec { kind: CK::Skip, slot: 3, blk: 0, s1: 0b010, s2: 0b100 },
        CertSpec { kind: CK::NotarFb, slot: 5, blk: 1, s1: 0b010, s2: 0b100 },
    ];
    let vote_specs = [
        VoteSpec { kind: VK::Notar, slot: 2, blk: 0, signer: 0 },
        VoteSpec { kind: VK::Final, slot: 2, blk: 0, signer: 0 },
        VoteSpec { kind: VK::Skip, slot: 3, blk: 0, signer: 0 },
        VoteSpec { kind: VK::NotarFb, slot: 5, blk: 1, signer: 0 },
    ];
    let certs: Vec<Cert> = cert_specs.iter().map(|c| f.raw_cert(c)).collect();
    let votes: Vec<alpenglow::consensus::Vote> = vote_specs.iter().map(|v| f.raw_vote(v)).collect();
    let _ = &mut f;
    let mut cases = 0;
    for state in ["fresh", "final-cert-far-ahead", "slots-retired", "standstill-slot-below-own-window"] {
        for bundle_slot in [1u64, 2, 3, 200] {
            cases += 1;
            let r = crate::common::catch(|| {
                let mut core = Core::new(&epoch, 0);
                match state {
                    "final-cert-far-ahead" => {
                        let far = f.raw_cert(&CertSpec { kind: CK::Final, slot: 100, blk: 0, s1: 0b110, s2: 0 });
                        crate::common::poll_once(core.votor.verif_handle_pool_event(PoolEvent::CertCreated(far)));
                    }
                    "slots-retired" => {
                        for c in &certs[..3] {
                            crate::common::poll_once(core.votor.verif_handle_pool_event(PoolEvent::CertCreated(c.clone())));
                        }
                    }
                    "standstill-slot-below-own-window" => {
                        let far = f.raw_cert(&CertSpec { kind: CK::FastFinal, slot: 9, blk: 0, s1: 0b111, s2: 0 });
                        crate::common::poll_once(core.votor.verif_handle_pool_event(PoolEvent::CertCreated(far)));
                    }
                    _ => {}
                }
                let _ = core.take_out();
                crate::common::poll_once(core.votor.verif_handle_pool_event(PoolEvent::Standstill(Slot::new(bundle_slot), certs.clone(), votes.clone())));
                core.take_out()
            });
            let replay = json!({"oracle": "votor-forwards-bundle", "votor_state": state, "bundle_slot": bundle_slot});
            match r {
                Err(p) => report.violation(format!("C18:votor-panics-on-bundle:{state}"), p, replay),
                Ok(out) => {
                    let want: Vec<Vec<u8>> = certs.iter().map(|c| wincode::serialize(&ConsensusMessage::Cert(c.clone())).unwrap())
                        .chain(votes.iter().map(|v| wincode::serialize(&ConsensusMessage::Vote(v.clone())).unwrap())).collect();
                    let got: Vec<Vec<u8>> = out.iter().map(|m| wincode::serialize(m).unwrap()).collect();
                    let missing = want.iter().filter(|w| !got.contains(w)).count();
                    if missing > 0 {
                        report.violation(
                            format!("C18:votor-drops-bundle:{state}"),
                            format!("Votor in state '{state}' handed a Standstill bundle for slot {bundle_slot} broadcast {} of its {} elements", want.len() - missing, want.len()),
                            replay,
                        );
                    }
                }
            }
        }
    }
    cases
}

/// End to end (whole real nodes, virtual time): messages are LOST (not delayed) for a while on a
/// set of links; nothing recovers them except the standstill path (10 s without progress ->
/// `recover_from_standstill` -> Votor re-broadcasts the bundle -> repair fetches missing blocks).
/// Every live node must be finalizing again, well beyond the frontier it had when the loss ended.
fn whole_node_loss_recovery(report: &Report, tier: Tier) -> Vec<Value> {
    whole_node_loss_recovery_for(report, tier, "C18", false)
}

/// `prop` names the property the verdicts are reported under; with `slow_path_only` only the
/// five-validator slow-path family is run (used by C02).
pub fn whole_node_loss_recovery_for(report: &Report, tier: Tier, prop: &'static str, slow_path_only: bool) -> Vec<Value> {
    use crate::common::{catch, take_thread_panics};
    use crate::simnet::{Cluster, runtime};
    use rayon::prelude::*;
    use std::collections::BTreeSet;
    use std::time::Duration;
    let mut jobs: Vec<(usize, &'static str, u64, u64)> = Vec::new();
    for n in tier.pick(vec![4usize], vec![4, 6]) {
        for pattern in ["partition-2-vs-rest", "one-node-cut-off", "blackout"] {
            for (from, to) in tier.pick(vec![(0u64, 3200u64), (2400, 5600)], vec![(0, 3200), (2400, 5600), (1000, 1400), (3000, 9000)]) {
                jobs.push((n, pattern, from, to));
            }
        }
    }
    // a node loses all its traffic around its OWN leader window (round-robin: window w is led by
    // node w mod n): its block producer sits waiting for a ready parent that never arrives while the
    // others skip the window and finalize past it
    for w in tier.pick(vec![2u64], vec![1, 2, 3, 5]) {
        jobs.push((4, ["", "own-window-1", "own-window-2", "own-window-3", "", "own-window-5"][w as usize], w * 1600 - 400, w * 1600 + 2400));
    }
    if slow_path_only {
        jobs.clear();
    }
    // slow path only: stakes [21, 21, 21, 19 silent, 18 crashed] - 63 % responsive, so nothing is
    // fast-finalized and every live node is needed for every quorum; the third live node loses all
    // traffic for a while, starting at different points inside a slot. What it missed (e.g. the
    // notarization certificate of a tip the others finalized with its votes) can only come back
    // through the standstill bundles.
    for from in tier.pick(if slow_path_only { vec![2600u64] } else { vec![2400u64, 2600, 2800] }, (2400..=3200).step_by(50).collect()) {
        jobs.push((5, "slow-path-one-of-three-live-nodes-cut-off", from, from + 2000));
    }
    // stakes [27, 27, 27, 19]: the third node is cut off while the other three (73 %) go on finalizing
    // on the slow path without it; then the 19 % node crashes for good and the links heal. From then
    // on the laggard is needed for every quorum, and what it missed - incl. the notarization
    // certificate of a tip the others finalized without it - can only reach it in the bundles.
    for from in tier.pick(if slow_path_only { vec![2400u64, 2800] } else { vec![2400u64, 2600, 2800] }, (2400..=3200).step_by(100).collect()) {
        jobs.push((4, "laggard-then-crash-of-the-19-percent-node", from, from + 2400));
    }
    let results: Vec<Value> = jobs
        .par_iter()
        .map(|(n, pattern, from, to)| {
            let (n, from, to) = (*n, *from, *to);
            let total = to + 10_000 + 12_000;
            let replay = json!({"oracle": "whole-node-loss-recovery", "n": n, "lost_links": pattern, "loss_from_ms": from, "loss_to_ms": to, "total_ms": total});
            let _ = take_thread_panics();
            let r = catch(|| {
                let rt = runtime(13);
                rt.block_on(async {
                    let slow5 = pattern.starts_with("slow-path");
                    let laggard = pattern.starts_with("laggard");
                    let cluster = if laggard {
                        Cluster::start(&[27, 27, 27, 19], Duration::from_millis(2), &BTreeSet::new())
                    } else if slow5 {
                        Cluster::start(&[21, 21, 21, 19, 18], Duration::from_millis(2), &[3usize, 4].into_iter().collect())
                    } else {
                        Cluster::start(&vec![10u64; n], Duration::from_millis(2), &BTreeSet::new())
                    };
                    let mut t = 0u64;
                    let mut at_heal: Vec<Option<u64>> = Vec::new();
                    let mut lossy_on = false;
                    while t < total {
                        tokio::time::sleep(Duration::from_millis(200)).await;
                        t += 200;
                        if !lossy_on && t >= from && t < to {
                            lossy_on = true;
                            let mut g = cluster.hub.inner.lock().unwrap();
                            for a in 0..n {
                                for b in 0..n {
                                    let lost = a != b
                                        && match *pattern {
                                            "partition-2-vs-rest" => (a < 2) != (b < 2),
                                            "one-node-cut-off" => a == n - 1 || b == n - 1,
                                            p if p.starts_with("slow-path") || p.starts_with("laggard") => a == 2 || b == 2,
                                            p if p.starts_with("own-window-") => {
                                                let k = p["own-window-".len()..].parse::<usize>().unwrap() % n;
                                                a == k || b == k
                                            }
                                            _ => true,
                                        };
                                    if lost {
                                        g.lossy.insert((a, b));
                                    }
                                }
                            }
                        }
                        if lossy_on && t >= to {
                            lossy_on = false;
                            let mut g = cluster.hub.inner.lock().unwrap();
                            g.lossy.clear();
                            if laggard {
                                g.crashed.insert(3);
                            }
                            drop(g);
                            at_heal = cluster.finalized().await;
                        }
                    }
                    let mut end = cluster.finalized().await;
                    if laggard {
                        // the crashed node's own view does not count
                        end[3] = None;
                        if at_heal.len() > 3 {
                            at_heal[3] = None;
                        }
                    }
                    (at_heal, end, cluster.tasks_alive())
                })
            });
            let panics = take_thread_panics();
            match r {
                Err(p) => {
                    report.violation(format!("{prop}:whole-node-recovery:simulation-panicked"), p, replay.clone());
                    json!({"scenario": replay, "outcome": "panic"})
                }
                Ok((at_heal, end, alive)) => {
                    if !panics.is_empty() || alive.iter().any(|a| !a) {
                        report.violation(format!("{prop}:whole-node-recovery:node-task-died:{pattern}"), format!("{:?}", panics.first()), replay.clone());
                    }
                    let frontier = at_heal.iter().flatten().copied().max().unwrap_or(0);
                    let min_end = end.iter().flatten().copied().min().unwrap_or(0);
                    // 12 s after the standstill timer at the latest: at least 3 windows beyond the frontier
                    if min_end < frontier + 12 {
                        report.violation(
                            format!("{prop}:whole-node-recovery:no-progress-after-loss:{pattern}"),
                            format!("n={n}: messages on {pattern} links were lost from {from} to {to} ms; finalized slots when the links healed {at_heal:?}, {} ms later {end:?}", total - to),
                            replay.clone(),
                        );
                    }
                    json!({"scenario": replay, "finalized_when_links_healed": at_heal, "finalized_at_end": end})
                }
            }
        })
        .collect();
    results
}

pub fn run_c18(tier: Tier) -> i32 {
    let report = Report::new("C18", tier, "model_checking");
    let votor_cases = votor_forwards_bundle(&report);
    println!("  votor forwarding cases: {votor_cases}");
    let recovery = if crate::common::replay_req().is_some() { Vec::new() } else { whole_node_loss_recovery(&report, tier) };
    println!("  whole-node loss/recovery runs: {}", recovery.len());
    let mut cov = run_scens(&report, "C18", scen_set(tier), tier.pick(400_000, 4_000_000), tier.pick(20, 120), tier.pick(50, 850));
    cov["whole_node_loss_recovery_runs"] = json!(recovery);
    cov["whole_node_loss_recovery_rule"] = json!("n real Alpenglow nodes in virtual time; messages on {partition 2|rest, every link of one node, all links} are dropped during the stated interval; afterwards only the standstill path (10 s) can restore progress; 12 s after the standstill timer every node must have finalized at least 12 slots beyond the highest slot finalized anywhere when the links healed");
    report.finish(cov)
}
