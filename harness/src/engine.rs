//! E2/E1 engine: level-synchronous, replay-based breadth-first search over the
//! operation sequences of a system made of *real* objects.
//!
//! A state is represented by a history (sequence of action indices) that
//! reaches it; the world is rebuilt from the history for every expansion, so no
//! cloning of real objects is needed.  States are de-duplicated on a 64-bit
//! digest of the complete real state (plus whatever the system adds to it).
//! Every transition counted has been executed on the implementation.

use std::collections::HashSet;
use std::time::{Duration, Instant};

use rayon::prelude::*;
use serde_json::{Value, json};

use crate::common::{Report, catch, rss_gb};

pub struct StepOutcome {
    /// (key, what) pairs; every one is reported.
    pub violations: Vec<(String, String)>,
    /// If true the successor is not expanded further (e.g. after a panic).
    pub fatal: bool,
}

impl StepOutcome {
    pub fn ok() -> Self {
        Self {
            violations: Vec::new(),
            fatal: false,
        }
    }
    pub fn fail(key: impl Into<String>, what: impl Into<String>) -> Self {
        Self {
            violations: vec![(key.into(), what.into())],
            fatal: false,
        }
    }
    pub fn push(&mut self, key: impl Into<String>, what: impl Into<String>) {
        self.violations.push((key.into(), what.into()));
    }
}

pub trait Sys: Sync {
    type World;
    /// Fresh world (real objects + reference model).
    fn init(&self) -> Self::World;
    /// Number of actions in the alphabet.
    fn num_actions(&self) -> usize;
    /// Whether `action` is enabled in `w` reached by `hist`.
    fn enabled(&self, w: &Self::World, hist: &[u16], action: u16) -> bool;
    /// Executes `action` on the real objects. With `check` the oracle is evaluated.
    fn step(&self, w: &mut Self::World, action: u16, check: bool) -> StepOutcome;
    /// Digest of the complete state.
    fn digest(&self, w: &Self::World) -> u64;
    /// Human-readable description of an action.
    fn describe(&self, action: u16) -> String;
    /// An "outcome" fingerprint used to count distinct observed outcomes.
    fn outcome(&self, _w: &Self::World) -> u64 {
        0
    }
}

#[derive(Default, Debug)]
pub struct BfsStats {
    pub states: usize,
    pub transitions: usize,
    pub replayed_steps: usize,
    pub depth_completed: usize,
    pub max_depth_reached: usize,
    pub capped: Option<String>,
    pub frontier_exhausted: bool,
    pub distinct_outcomes: usize,
    pub per_level: Vec<usize>,
    pub samples: Vec<Value>,
}

impl BfsStats {
    pub fn to_json(&self) -> Value {
        json!({
            "states": self.states,
            "transitions": self.transitions,
            "replayed_steps": self.replayed_steps,
            "depth_completed": self.depth_completed,
            "max_depth_reached": self.max_depth_reached,
            "capped": self.capped,
            "frontier_exhausted": self.frontier_exhausted,
            "distinct_outcomes": self.distinct_outcomes,
            "states_per_level": self.per_level,
        })
    }
    pub fn merge_into(&self, total: &mut BfsStats) {
        total.states += self.states;
        total.transitions += self.transitions;
        total.replayed_steps += self.replayed_steps;
        total.distinct_outcomes += self.distinct_outcomes;
        total.max_depth_reached = total.max_depth_reached.max(self.max_depth_reached);
        if self.capped.is_some() && total.capped.is_none() {
            total.capped = self.capped.clone();
        }
    }
}

pub struct BfsLimits {
    pub max_depth: usize,
    pub max_states: usize,
    pub deadline: Instant,
    pub max_rss_gb: f64,
}

impl BfsLimits {
    pub fn new(max_depth: usize, max_states: usize, secs: u64) -> Self {
        Self {
            max_depth,
            max_states,
            deadline: Instant::now() + Duration::from_secs(secs),
            max_rss_gb: 24.0,
        }
    }
}

fn rebuild<S: Sys>(sys: &S, hist: &[u16]) -> Result<S::World, String> {
    catch(|| {
        let mut w = sys.init();
        for a in hist {
            let _ = sys.step(&mut w, *a, false);
        }
        w
    })
}

struct Succ {
    digest: u64,
    outcome: u64,
    hist: Vec<u16>,
    expand: bool,
    violations: Vec<(String, String)>,
}

/// Explores all action sequences up to the limits, de-duplicating on the digest.
pub fn bfs<S: Sys>(sys: &S, label: &str, limits: &BfsLimits, report: &Report) -> BfsStats {
    if let Some(req) = crate::common::replay_req() {
        // `vcheck replay`: re-execute the recorded schedule on the named system, twice
        if req.label == label && req.actions.iter().all(|a| (*a as usize) < sys.num_actions()) {
            println!("REPLAY system={label} ({} steps)", req.actions.len());
            for (i, a) in req.actions.iter().enumerate() {
                println!("  {:>2}. {}", i + 1, sys.describe(*a));
            }
            let (v1, d1) = replay_last(sys, &req.actions);
            let (v2, d2) = replay_last(sys, &req.actions);
            for (k, what) in &v1 {
                println!("  reproduced: key={k} what={what}");
            }
            let keys = |v: &Vec<(String, String)>| { let mut k: Vec<String> = v.iter().map(|x| x.0.clone()).collect(); k.sort(); k.dedup(); k };
            crate::common::REPLAY_RESULTS.lock().unwrap().push((label.to_string(), keys(&v1), keys(&v2), d1 == d2));
        }
        return BfsStats::default();
    }
    let mut stats = BfsStats::default();
    let mut confirmed: HashSet<String> = HashSet::new();
    let mut seen: HashSet<u64> = HashSet::new();
    let mut outcomes: HashSet<u64> = HashSet::new();
    let w0 = sys.init();
    seen.insert(sys.digest(&w0));
    outcomes.insert(sys.outcome(&w0));
    drop(w0);
    let mut frontier: Vec<Vec<u16>> = vec![vec![]];
    stats.states = 1;
    stats.per_level.push(1);
    let n_actions = sys.num_actions() as u16;
    let mut depth = 0;
    while !frontier.is_empty() && depth < limits.max_depth {
        if Instant::now() > limits.deadline {
            stats.capped = Some(format!("wall clock at depth {depth}"));
            break;
        }
        if rss_gb() > limits.max_rss_gb {
            stats.capped = Some(format!("rss at depth {depth}"));
            break;
        }
        // process the level in chunks so that caps can be honoured mid-level
        let mut next: Vec<Vec<u16>> = Vec::new();
        let mut level_capped = false;
        for chunk in frontier.chunks(4096) {
            let results: Vec<Vec<Succ>> = chunk
                .par_iter()
                .map(|hist| {
                    let mut out = Vec::new();
                    let base = match rebuild(sys, hist) {
                        Ok(w) => w,
                        Err(_) => return out, // already reported when first reached
                    };
                    let enabled: Vec<u16> = (0..n_actions)
                        .filter(|a| sys.enabled(&base, hist, *a))
                        .collect();
                    let mut base = Some(base);
                    for (i, a) in enabled.iter().enumerate() {
                        // reuse the base world for the last enabled action
                        let mut w = if i + 1 == enabled.len() {
                            base.take().unwrap()
                        } else {
                            match rebuild(sys, hist) {
                                Ok(w) => w,
                                Err(_) => continue,
                            }
                        };
                        let mut h2 = hist.clone();
                        h2.push(*a);
                        match catch(|| {
                            let o = sys.step(&mut w, *a, true);
                            (o, w)
                        }) {
                            Ok((o, w)) => {
                                let d = sys.digest(&w);
                                out.push(Succ {
                                    digest: d,
                                    outcome: sys.outcome(&w),
                                    hist: h2,
                                    expand: !o.fatal,
                                    violations: o.violations,
                                });
                            }
                            Err(msg) => {
                                let class = panic_class(&msg);
                                out.push(Succ {
                                    digest: 0,
                                    outcome: 0,
                                    hist: h2,
                                    expand: false,
                                    violations: vec![(
                                        format!("panic:{class}"),
                                        format!("panic in real code: {msg}"),
                                    )],
                                });
                            }
                        }
                    }
                    out
                })
                .collect();
            for succs in results {
                for s in succs {
                    stats.transitions += 1;
                    stats.replayed_steps += s.hist.len();
                    for (key, what) in &s.violations {
                        // before trusting a failure: the same schedule must fail the same way, twice
                        if !key.starts_with("panic:") && confirmed.insert(key.clone()) {
                            let (v1, d1) = replay_last(sys, &s.hist);
                            let (v2, d2) = replay_last(sys, &s.hist);
                            let has = |v: &Vec<(String, String)>| v.iter().any(|x| &x.0 == key);
                            if !(has(&v1) && has(&v2)) || d1 != d2 {
                                crate::common::machinery_failure(&format!(
                                    "violation {key} in system {label} did not reproduce when its schedule {:?} was replayed twice (run 1: {:?}, run 2: {:?}, digests equal: {}); uncontrolled nondeterminism in the harness",
                                    s.hist, v1.iter().map(|x| &x.0).collect::<Vec<_>>(), v2.iter().map(|x| &x.0).collect::<Vec<_>>(), d1 == d2
                                ));
                            }
                        }
                        report.violation(
                            key.clone(),
                            what.clone(),
                            json!({
                                "engine": "bfs",
                                "system": label,
                                "actions": s.hist,
                                "trace": s.hist.iter().map(|a| sys.describe(*a)).collect::<Vec<_>>(),
                            }),
                        );
                    }
                    if !s.expand {
                        continue;
                    }
                    outcomes.insert(s.outcome);
                    if seen.insert(s.digest) {
                        stats.states += 1;
                        if stats.samples.len() < 3 && s.hist.len() >= 3 {
                            stats.samples.push(json!({
                                "system": label,
                                "trace": s.hist.iter().map(|a| sys.describe(*a)).collect::<Vec<_>>(),
                            }));
                        }
                        next.push(s.hist);
                    }
                }
            }
            if stats.states > limits.max_states {
                stats.capped = Some(format!("state cap {} at depth {}", limits.max_states, depth + 1));
                level_capped = true;
                break;
            }
            if Instant::now() > limits.deadline {
                stats.capped = Some(format!("wall clock inside depth {}", depth + 1));
                level_capped = true;
                break;
            }
        }
        if level_capped {
            stats.max_depth_reached = depth + 1;
            break;
        }
        depth += 1;
        stats.depth_completed = depth;
        stats.max_depth_reached = depth;
        stats.per_level.push(next.len());
        frontier = next;
    }
    stats.frontier_exhausted = frontier.is_empty() && stats.capped.is_none();
    stats.distinct_outcomes = outcomes.len();
    stats
}

thread_local! {
    static REPLAYING: std::cell::Cell<bool> = const { std::cell::Cell::new(false) };
}

/// True while a schedule is being re-executed for confirmation (memoisation must be bypassed).
pub fn replaying() -> bool {
    REPLAYING.with(|r| r.get()) || crate::common::replay_req().is_some()
}

/// Re-executes a schedule exactly as the exploration did (oracle on the last step only);
/// returns the violations of the last step and the digest of the final state.
pub fn replay_last<S: Sys>(sys: &S, actions: &[u16]) -> (Vec<(String, String)>, u64) {
    REPLAYING.with(|r| r.set(true));
    let r = catch(|| {
        let mut w = sys.init();
        let mut v = Vec::new();
        for (i, a) in actions.iter().enumerate() {
            let o = sys.step(&mut w, *a, i + 1 == actions.len());
            if i + 1 == actions.len() {
                v = o.violations;
            }
        }
        let d = sys.digest(&w);
        (v, d)
    });
    REPLAYING.with(|r| r.set(false));
    match r {
        Ok(x) => x,
        Err(msg) => (vec![(format!("panic:{}", panic_class(&msg)), msg)], 0),
    }
}

/// Replays a recorded action list with the oracle on; returns the violations seen.
#[allow(dead_code)]
pub fn replay<S: Sys>(sys: &S, actions: &[u16]) -> Vec<(String, String)> {
    let mut out = Vec::new();
    let r = catch(|| {
        let mut w = sys.init();
        let mut v = Vec::new();
        for a in actions {
            let o = sys.step(&mut w, *a, true);
            v.extend(o.violations);
        }
        v
    });
    match r {
        Ok(v) => out.extend(v),
        Err(msg) => out.push((format!("panic:{}", panic_class(&msg)), msg)),
    }
    out
}

/// Coarse class of a panic message: text up to the first digit run / quote.
pub fn panic_class(msg: &str) -> String {
    let mut s: String = msg
        .chars()
        .take_while(|c| !c.is_ascii_digit() && *c != '`' && *c != '\n')
        .collect();
    s.truncate(60);
    s.trim().replace(' ', "_")
}
