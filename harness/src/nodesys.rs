//! E1 with H = 1: one real node core (`PoolImpl` + `Votor`) whose broadcasts loop
//! back through the network, all other validators adversarial.  A monitor
//! automaton over the node's own emitted votes decides C05.

use std::collections::{BTreeMap, BTreeSet, VecDeque};
use std::hash::{Hash, Hasher};
use std::sync::{Arc, Mutex};

use alpenglow::consensus::verif::{verif_capture_timeouts, verif_take_armed_windows};
use alpenglow::consensus::{
    BlockInfo, BlockstoreEvent, Cert, ConsensusMessage, PoolEvent, Vote, Votor,
};
use alpenglow::crypto::merkle::{BlockHash, GENESIS_BLOCK_HASH};
use alpenglow::types::{SLOTS_PER_WINDOW, Slot};
use alpenglow::{All2All, BlockId};
use tokio::sync::mpsc;

use crate::common::{Epoch, new_hasher, poll_once, vi};
use crate::engine::{StepOutcome, Sys};
use crate::pooldrv::*;

/// All-to-all stub that records what the node broadcasts.
pub struct Rec {
    pub out: Mutex<Vec<ConsensusMessage>>,
}

impl All2All for Rec {
    async fn broadcast(&self, msg: &ConsensusMessage) -> std::io::Result<()> {
        self.out.lock().unwrap().push(msg.clone());
        Ok(())
    }
    async fn receive(&self) -> std::io::Result<ConsensusMessage> {
        std::future::pending().await
    }
}

/// One real node core.
pub struct Core {
    pub id: usize,
    pub pool: PoolH,
    pub votor: Votor<Rec>,
    pub rec: Arc<Rec>,
    _pool_tx: mpsc::Sender<PoolEvent>,
    _bs_tx: mpsc::Sender<BlockstoreEvent>,
    /// Pool events not yet consumed by Votor.
    pub q: VecDeque<PoolEvent>,
    /// window start -> next stage (0 crashed-leader, 1..=4 slot timeouts, 5 done)
    pub timers: BTreeMap<u64, u8>,
    pub first_shred: BTreeSet<u64>,
}

impl Core {
    pub fn new(epoch: &Epoch, id: usize) -> Self {
        verif_capture_timeouts(true);
        let _ = verif_take_armed_windows();
        let (pool_tx, pool_rx) = mpsc::channel(16);
        let (bs_tx, bs_rx) = mpsc::channel(16);
        let rec = Arc::new(Rec {
            out: Mutex::new(Vec::new()),
        });
        let votor = Votor::new(vi(id), epoch.sks[id].clone(), pool_rx, bs_rx, rec.clone());
        let mut c = Self {
            id,
            pool: PoolH::new(epoch, id),
            votor,
            rec,
            _pool_tx: pool_tx,
            _bs_tx: bs_tx,
            q: VecDeque::new(),
            timers: BTreeMap::new(),
            first_shred: BTreeSet::new(),
        };
        c.collect_armed();
        c
    }

    fn collect_armed(&mut self) {
        for w in verif_take_armed_windows() {
            let e = self.timers.entry(w.inner()).or_insert(0);
            if *e >= 5 {
                *e = 0;
            }
        }
    }

    pub fn take_out(&mut self) -> Vec<ConsensusMessage> {
        std::mem::take(&mut *self.rec.out.lock().unwrap())
    }

    /// Lets Votor consume one queued pool event.
    pub fn votor_step(&mut self) -> Option<PoolEvent> {
        let e = self.q.pop_front()?;
        let _ = verif_take_armed_windows(); // per-thread: leftovers of a call that panicked in another world
        poll_once(self.votor.verif_handle_pool_event(e.clone()));
        self.collect_armed();
        Some(e)
    }

    pub fn blockstore_event(&mut self, e: BlockstoreEvent) {
        let _ = verif_take_armed_windows(); // per-thread: leftovers of a call that panicked in another world
        poll_once(self.votor.verif_handle_blockstore_event(e));
        self.collect_armed();
    }

    /// Fires the next stage of the timer armed for window `w`; returns what fired.
    pub fn fire_timer(&mut self, w: u64) -> Option<(u64, bool)> {
        let stage = *self.timers.get(&w)?;
        if stage >= 5 {
            return None;
        }
        let (slot, crashed) = if stage == 0 { (w, true) } else { (w + stage as u64 - 1, false) };
        self.timers.insert(w, stage + 1);
        let _ = verif_take_armed_windows(); // per-thread: leftovers of a call that panicked in another world
        poll_once(self.votor.verif_handle_timeout(Slot::new(slot), crashed));
        self.collect_armed();
        Some((slot, crashed))
    }

    pub fn digest<H: Hasher>(&self, h: &mut H) {
        self.pool.pool.verif_digest(h);
        self.votor.verif_digest(h);
        for e in &self.q {
            // canonical bytes: the Debug form of a certificate contains the heap address of its bitmask
            match e {
                PoolEvent::CertCreated(c) => (0u8, wincode::serialize(c).expect("ser")).hash(h),
                PoolEvent::Standstill(s, certs, votes) => {
                    (1u8, s).hash(h);
                    for c in certs {
                        wincode::serialize(c).expect("ser").hash(h);
                    }
                    for v in votes {
                        wincode::serialize(v).expect("ser").hash(h);
                    }
                }
                other => (2u8, format!("{other:?}")).hash(h),
            }
        }
        self.timers.hash(h);
        self.first_shred.hash(h);
    }
}

#[derive(Clone, Debug)]
pub struct NodeAlphabet {
    pub foreign: Vec<Op>,
    pub blocks: Vec<(Blk, Blk)>,
    pub invalid: Vec<u64>,
    pub first_shreds: Vec<u64>,
    pub windows: Vec<u64>,
    /// certificates the adversary may aggregate at any time from the votes signed so far
    pub forge: Vec<(CK, u64, u8)>,
}

#[derive(Clone, Debug, PartialEq, Eq, Hash)]
pub enum VRec {
    Notar(BlockHash),
    NotarFb(BlockHash),
    Skip,
    SkipFb,
    Final,
}

/// Monitor automaton for the voting rules (C05).
#[derive(Clone, Default)]
pub struct Mon {
    pub blocks_known: BTreeMap<BlockId, BlockId>,
    pub parent_ready: BTreeSet<(u64, BlockId)>,
    pub notar_certs: BTreeSet<BlockId>,
    pub s2n: BTreeSet<BlockId>,
    pub s2s: BTreeSet<u64>,
    pub votes: BTreeMap<u64, Vec<VRec>>,
    /// highest slot of a Final / FastFinal certificate handed to Votor
    pub max_final_cert: u64,
}

impl Mon {
    fn digest<H: Hasher>(&self, h: &mut H) {
        self.blocks_known.hash(h);
        self.parent_ready.hash(h);
        self.notar_certs.hash(h);
        self.s2n.hash(h);
        self.s2s.hash(h);
        self.max_final_cert.hash(h);
        for (s, v) in &self.votes {
            s.hash(h);
            v.hash(h);
        }
    }

    pub fn observe_pool_event(&mut self, e: &PoolEvent) {
        match e {
            PoolEvent::ParentReady { slot, parent } => {
                self.parent_ready.insert((slot.inner(), parent.clone()));
            }
            PoolEvent::SafeToNotar(b) => {
                self.s2n.insert(b.clone());
            }
            PoolEvent::SafeToSkip(s) => {
                self.s2s.insert(s.inner());
            }
            PoolEvent::CertCreated(Cert::Notar(c)) => {
                self.notar_certs.insert((Cert::Notar(c.clone()).slot(), c.block_hash().clone()));
            }
            PoolEvent::CertCreated(c @ (Cert::Final(_) | Cert::FastFinal(_))) => {
                self.max_final_cert = self.max_final_cert.max(c.slot().inner());
            }
            _ => {}
        }
    }

    /// Checks one emitted own vote against the rules; returns (key, what) violations.
    pub fn observe_vote(&mut self, v: &Vote, own: usize) -> Vec<(String, String)> {
        let mut out = Vec::new();
        let s = v.slot().inner();
        if v.signer().inner() as usize != own {
            out.push(("C05:foreign-signer".to_string(), format!("vote {v:?} names signer {}", v.signer())));
        }
        let prior = self.votes.get(&s).cloned().unwrap_or_default();
        let initial: Vec<&VRec> = prior.iter().filter(|r| matches!(r, VRec::Notar(_) | VRec::Skip)).collect();
        let own_notar: Option<&BlockHash> = prior.iter().find_map(|r| if let VRec::Notar(h) = r { Some(h) } else { None });
        let has_final = prior.contains(&VRec::Final);
        let has_fallbackish = prior.iter().any(|r| matches!(r, VRec::Skip | VRec::SkipFb | VRec::NotarFb(_)));
        let rec = match v {
            Vote::Notar(n) => {
                let h = n.block_hash().clone();
                if !initial.is_empty() {
                    out.push((
                        "C05:second-initial-vote".to_string(),
                        format!("notar vote in slot {s} after initial vote(s) {initial:?}"),
                    ));
                }
                // parent rule
                let id: BlockId = (Slot::new(s), h.clone());
                match self.blocks_known.get(&id) {
                    None => out.push((
                        "C05:notar-for-unknown-block".to_string(),
                        format!("notar vote in slot {s} for a block never announced to the node"),
                    )),
                    Some(parent) => {
                        if s % SLOTS_PER_WINDOW == 0 {
                            if !self.parent_ready.contains(&(s, parent.clone())) {
                                out.push((
                                    "C05:notar-first-slot-parent-not-ready".to_string(),
                                    format!("notar vote in window-first slot {s} but its parent in slot {} was never announced ready for {s}", parent.0),
                                ));
                            }
                        } else {
                            let prev = s - 1;
                            let prev_notar: Option<BlockHash> = if prev == 0 {
                                Some(GENESIS_BLOCK_HASH)
                            } else {
                                self.votes.get(&prev).and_then(|vs| {
                                    vs.iter().find_map(|r| if let VRec::Notar(h) = r { Some(h.clone()) } else { None })
                                })
                            };
                            if parent.0.inner() != prev || prev_notar.as_ref() != Some(&parent.1) {
                                out.push((
                                    "C05:notar-parent-not-own-previous-notar".to_string(),
                                    format!("notar vote in slot {s} for a block whose parent (slot {}) is not the block the node notarized in slot {prev}", parent.0),
                                ));
                            }
                        }
                    }
                }
                VRec::Notar(h)
            }
            Vote::Skip(_) => {
                if !initial.is_empty() {
                    out.push((
                        "C05:second-initial-vote".to_string(),
                        format!("skip vote in slot {s} after initial vote(s) {initial:?}"),
                    ));
                }
                if has_final {
                    out.push(("C05:skip-after-final".to_string(), format!("skip vote in slot {s} after finalize vote")));
                }
                VRec::Skip
            }
            Vote::NotarFallback(n) => {
                let h = n.block_hash().clone();
                if initial.is_empty() {
                    out.push((
                        "C05:fallback-before-initial-vote".to_string(),
                        format!("notar-fallback vote in slot {s} before any initial vote"),
                    ));
                }
                if !self.s2n.contains(&(Slot::new(s), h.clone())) {
                    out.push((
                        "C05:notar-fallback-without-safe-to-notar".to_string(),
                        format!("notar-fallback vote in slot {s} without SafeToNotar from own pool"),
                    ));
                }
                if has_final {
                    out.push((
                        "C05:notar-fallback-after-final".to_string(),
                        format!("notar-fallback vote in slot {s} after finalize vote"),
                    ));
                }
                if own_notar == Some(&h) {
                    out.push((
                        "C05:notar-fallback-for-own-notarized-block".to_string(),
                        format!("notar-fallback vote in slot {s} for the block the node itself notarized"),
                    ));
                }
                VRec::NotarFb(h)
            }
            Vote::SkipFallback(_) => {
                if initial.is_empty() {
                    out.push((
                        "C05:fallback-before-initial-vote".to_string(),
                        format!("skip-fallback vote in slot {s} before any initial vote"),
                    ));
                }
                if !self.s2s.contains(&s) {
                    out.push((
                        "C05:skip-fallback-without-safe-to-skip".to_string(),
                        format!("skip-fallback vote in slot {s} without SafeToSkip from own pool"),
                    ));
                }
                // the safe-to-skip condition can only hold at a node that notarized a block in the slot;
                // a node whose initial vote was skip never casts skip-fallback on top of it
                if own_notar.is_none() && !initial.is_empty() {
                    out.push((
                        "C05:skip-fallback-in-a-slot-the-node-did-not-notarize".to_string(),
                        format!("skip-fallback vote in slot {s} although the node's initial vote there was skip (the safe-to-skip condition requires an own notar vote)"),
                    ));
                }
                if has_final {
                    out.push((
                        "C05:skip-fallback-after-final".to_string(),
                        format!("skip-fallback vote in slot {s} after finalize vote"),
                    ));
                }
                VRec::SkipFb
            }
            Vote::Final(_) => {
                match own_notar {
                    None => out.push((
                        "C05:final-without-own-notar".to_string(),
                        format!("finalize vote in slot {s} without own notar vote"),
                    )),
                    Some(h) => {
                        if !self.notar_certs.contains(&(Slot::new(s), h.clone())) {
                            out.push((
                                "C05:final-without-notar-cert-for-own-block".to_string(),
                                format!("finalize vote in slot {s} but no notarization certificate for the block the node notarized was seen"),
                            ));
                        }
                    }
                }
                if has_fallbackish {
                    out.push((
                        "C05:final-after-skip-or-fallback".to_string(),
                        format!("finalize vote in slot {s} after {:?}", prior),
                    ));
                }
                if has_final {
                    out.push(("C05:second-final".to_string(), format!("second finalize vote in slot {s}")));
                }
                VRec::Final
            }
        };
        self.votes.entry(s).or_default().push(rec);
        out
    }
}

pub struct NodeSys {
    pub name: String,
    pub epoch: Arc<Epoch>,
    pub own: usize,
    pub alpha: NodeAlphabet,
    pub factory: Factory,
    /// 0 = Votor consumes pool events immediately; k > 0 = up to k events may stay queued.
    pub lag: usize,
    pub max_own: usize,
    /// With the guard on, a foreign certificate whose signer set includes the node under
    /// test is only deliverable once the node has really cast the matching vote
    /// (nobody can forge its signature).
    pub honest_guard: bool,
    /// Byzantine validator (may sign anything) for forged certificates.
    pub byz: Option<usize>,
    /// Votes other correct validators have cast in this world (a fixed, legitimate persona).
    pub persona: Vec<VoteSpec>,
    /// Actions executed before the exploration starts (non-initial seed state).
    pub prefix: Vec<u16>,
    /// Some(P): report only crashes of the node core, under keys of property P (C10).
    pub crash_focus: Option<&'static str>,
    /// Check in every settled state that every votable block was voted for (C02, see `check_obligations`).
    pub obligations: bool,
}

pub struct NodeWorld {
    pub core: Core,
    pub mon: Mon,
    pub judge: PoolH,
    pub own_msgs: Vec<ConsensusMessage>,
    pub own_delivered: Vec<bool>,
    pub foreign_delivered: Vec<bool>,
    pub blocks_delivered: Vec<bool>,
    pub invalid_delivered: Vec<bool>,
    pub fs_delivered: Vec<bool>,
    pub forged: Vec<bool>,
    pub out_of_scope: bool,
}

#[derive(Clone, Debug)]
pub enum Act {
    Foreign(usize),
    Block(usize),
    Invalid(usize),
    FirstShred(usize),
    Timer(usize),
    Loop(usize),
    Forge(usize),
    VotorStep,
}

impl NodeSys {
    pub fn new(name: &str, epoch: Arc<Epoch>, own: usize, alpha: NodeAlphabet, lag: usize) -> Self {
        let mut factory = Factory::new(epoch.clone());
        factory.prepare(&alpha.foreign);
        Self {
            name: name.to_string(),
            epoch,
            own,
            alpha,
            factory,
            lag,
            max_own: 40,
            honest_guard: false,
            byz: None,
            persona: Vec::new(),
            prefix: Vec::new(),
            crash_focus: None,
            obligations: false,
        }
    }

    pub fn decode(&self, a: u16) -> Act {
        let mut a = a as usize;
        let f = self.alpha.foreign.len();
        if a < f {
            return Act::Foreign(a);
        }
        a -= f;
        if a < self.alpha.blocks.len() {
            return Act::Block(a);
        }
        a -= self.alpha.blocks.len();
        if a < self.alpha.invalid.len() {
            return Act::Invalid(a);
        }
        a -= self.alpha.invalid.len();
        if a < self.alpha.first_shreds.len() {
            return Act::FirstShred(a);
        }
        a -= self.alpha.first_shreds.len();
        if a < self.alpha.windows.len() {
            return Act::Timer(a);
        }
        a -= self.alpha.windows.len();
        if a < self.max_own {
            return Act::Loop(a);
        }
        a -= self.max_own;
        if a < self.alpha.forge.len() {
            return Act::Forge(a);
        }
        Act::VotorStep
    }

    /// Did the node under test cast a vote of `kind` for (slot, blk)?
    pub fn own_cast(&self, w: &NodeWorld, kind: VK, slot: u64, blk: u8) -> bool {
        let tag = match kind { VK::Notar => 0u8, VK::NotarFb => 1, VK::Skip => 2, VK::SkipFb => 3, VK::Final => 4 };
        w.own_msgs.iter().any(|m| match m {
            ConsensusMessage::Vote(v) => {
                vote_tag(v) == tag
                    && v.slot().inner() == slot
                    && v.block_hash().is_none_or(|h| *h == blk_hash(Blk { slot, idx: blk }))
            }
            _ => false,
        })
    }

    /// Strongest certificate of the given kind formable from what has really been signed:
    /// the Byzantine validator signs anything, the node under test only what it cast, other
    /// correct validators only their persona votes. `None` if the threshold is not met.
    pub fn forge_spec(&self, w: &NodeWorld, (kind, slot, blk): (CK, u64, u8)) -> Option<CertSpec> {
        let (prim, fall) = match kind {
            CK::Notar | CK::FastFinal => (VK::Notar, None),
            CK::NotarFb => (VK::Notar, Some(VK::NotarFb)),
            CK::Skip => (VK::Skip, Some(VK::SkipFb)),
            CK::Final => (VK::Final, None),
        };
        // blk | 0x80: the Byzantine validator signs *both* halves of a mixed certificate
        let overlap = blk & 0x80 != 0 && matches!(kind, CK::Skip | CK::NotarFb) && self.byz.is_some();
        let blk = blk & 0x7f;
        let b = if matches!(kind, CK::Skip | CK::Final) { 0 } else { blk };
        let mut s1 = 0u32;
        let mut s2 = 0u32;
        if let Some(z) = self.byz {
            s1 |= 1 << z;
        }
        if self.own_cast(w, prim, slot, b) {
            s1 |= 1 << self.own;
        } else if fall.is_some_and(|f| self.own_cast(w, f, slot, b)) {
            s2 |= 1 << self.own;
        }
        for p in &self.persona {
            if p.slot == slot && (p.blk == b || !p.has_block()) {
                if p.kind == prim && (!p.has_block() || p.blk == b) {
                    s1 |= 1 << p.signer;
                } else if Some(p.kind) == fall && s1 & (1 << p.signer) == 0 {
                    s2 |= 1 << p.signer;
                }
            }
        }
        let stake: u64 = (0..self.epoch.n()).filter(|i| (s1 | s2) >> i & 1 == 1).map(|i| self.epoch.stakes[i]).sum();
        let need = if kind == CK::FastFinal { 4 } else { 3 };
        if overlap {
            // only interesting when the distinct stake is insufficient but a double count would pass;
            // a correct validator rejects it (the Forge action is then a no-op)
            let z = self.byz.unwrap();
            if self.epoch.meets(stake, need, 5) || !self.epoch.meets(stake + self.epoch.stakes[z], need, 5) {
                return None;
            }
            return Some(CertSpec { kind, slot, blk: b, s1, s2: s2 | 1 << z });
        }
        if !self.epoch.meets(stake, need, 5) {
            return None;
        }
        Some(CertSpec { kind, slot, blk: b, s1, s2 })
    }

    /// Has the node itself cast the vote a certificate claims from it?
    fn guard_ok(&self, w: &NodeWorld, i: usize) -> bool {
        if !self.honest_guard {
            return true;
        }
        let own_bit = 1u32 << self.own;
        match &self.alpha.foreign[i] {
            Op::Vote(v) => v.signer != self.own,
            Op::Cert(c) => {
                let cast = |tag: u8| {
                    w.own_msgs.iter().any(|m| match m {
                        ConsensusMessage::Vote(v) => {
                            vote_tag(v) == tag
                                && v.slot().inner() == c.slot
                                && v.block_hash().is_none_or(|h| *h == blk_hash(Blk { slot: c.slot, idx: c.blk }))
                        }
                        _ => false,
                    })
                };
                let (t1, t2) = match c.kind {
                    CK::Notar | CK::FastFinal => (0u8, 0u8),
                    CK::NotarFb => (0, 1),
                    CK::Skip => (2, 3),
                    CK::Final => (4, 4),
                };
                (c.s1 & own_bit == 0 || cast(t1)) && (c.s2 & own_bit == 0 || cast(t2))
            }
            _ => true,
        }
    }

    /// Lets Votor consume queued events as the lag bound demands and feeds the monitor.
    fn settle(&self, w: &mut NodeWorld, out: &mut StepOutcome, force_all: bool) {
        loop {
            let over = if force_all { !w.core.q.is_empty() } else { w.core.q.len() > self.lag };
            if !over {
                break;
            }
            w.core.votor_step();
            self.collect(w, out);
        }
    }

    /// Moves what Votor broadcast into the own-message list, checking votes.
    fn collect(&self, w: &mut NodeWorld, out: &mut StepOutcome) {
        for m in w.core.take_out() {
            if let ConsensusMessage::Vote(v) = &m {
                for (k, what) in w.mon.observe_vote(v, self.own) {
                    out.push(k, what);
                }
                match crate::common::validate_vote_cached(v, &self.epoch) {
                    None => out.push("C05:own-vote-invalid".to_string(), "own vote fails validation".to_string()),
                    Some(vv) => {
                        let (r, _) = w.judge.add_vote(vv);
                        let (name, off) = verdict_of(&r);
                        if name == "Slashable" {
                            out.push(
                                format!("C05:own-votes-slashable:{}", off.unwrap_or_default()),
                                format!("the node's own votes form a slashable combination at a fresh pool: {v:?}"),
                            );
                        }
                    }
                }
            }
            if w.own_msgs.len() < self.max_own {
                w.own_msgs.push(m);
                w.own_delivered.push(false);
            } else {
                w.out_of_scope = true;
            }
        }
    }

    fn enqueue(&self, w: &mut NodeWorld, o: Out) {
        for e in o.events {
            w.mon.observe_pool_event(&e);
            w.core.q.push_back(e);
        }
    }
}

impl NodeSys {
    /// Progress obligation of one node (C02): a block that is the only one the node received for
    /// its slot (a correct leader's) and whose parent condition holds - first slot of a window: Votor
    /// was told ParentReady for exactly its parent; later slot: the node itself notarized its parent
    /// in the previous slot - must have been voted for, unless the node had already voted in the slot
    /// (timeout, skipped window) or holds a finalization certificate for that or a later slot.
    /// Holds in every settled state whatever the order of blocks, certificates and timeouts.
    fn check_obligations(&self, w: &NodeWorld, out: &mut StepOutcome) {
        let mut per_slot: BTreeMap<u64, Vec<(Blk, Blk)>> = BTreeMap::new();
        for (i, (b, p)) in self.alpha.blocks.iter().enumerate() {
            if w.blocks_delivered[i] {
                per_slot.entry(b.slot).or_default().push((*b, *p));
            }
        }
        for (s, bs) in per_slot {
            if bs.len() != 1 || s <= w.mon.max_final_cert {
                continue;
            }
            let (b, p) = bs[0];
            let voted = w.mon.votes.get(&s).is_some_and(|v| v.iter().any(|r| matches!(r, VRec::Notar(_) | VRec::Skip)));
            if voted {
                continue;
            }
            let first = s % alpenglow::types::SLOTS_PER_WINDOW == 0;
            let votable = if first {
                w.mon.parent_ready.contains(&(s, blk_id(p)))
            } else {
                // the genesis block counts as notarized by everybody
                p.slot + 1 == s && (p == GENESIS || w.mon.votes.get(&p.slot).is_some_and(|v| v.contains(&VRec::Notar(blk_hash(p)))))
            };
            if votable {
                out.push(
                    format!("C02:votable-block-not-voted:{}", if first { "first-slot-of-window" } else { "later-slot" }),
                    format!(
                        "the node holds block (s{},b{}) on parent (s{},b{}), its parent condition holds ({}), it has not voted in slot {s} and holds no finalization certificate at or above it - yet it has not voted notar",
                        b.slot, b.idx, p.slot, p.idx,
                        if first { "ParentReady was handed to Votor" } else { "own notar vote for the parent" }
                    ),
                );
            }
        }
    }

    pub fn init_bare(&self) -> NodeWorld {
        NodeWorld {
            core: Core::new(&self.epoch, self.own),
            mon: Mon::default(),
            judge: PoolH::new(&self.epoch, (self.own + 1) % self.epoch.n()),
            own_msgs: Vec::new(),
            own_delivered: Vec::new(),
            foreign_delivered: vec![false; self.alpha.foreign.len()],
            blocks_delivered: vec![false; self.alpha.blocks.len()],
            invalid_delivered: vec![false; self.alpha.invalid.len()],
            fs_delivered: vec![false; self.alpha.first_shreds.len()],
            forged: vec![false; self.alpha.forge.len()],
            out_of_scope: false,
        }
    }

}

impl Sys for NodeSys {
    type World = NodeWorld;

    fn init(&self) -> NodeWorld {
        let mut w = self.init_bare();
        for a in &self.prefix {
            let _ = self.step(&mut w, *a, false);
        }
        w
    }

    fn num_actions(&self) -> usize {
        self.alpha.foreign.len()
            + self.alpha.blocks.len()
            + self.alpha.invalid.len()
            + self.alpha.first_shreds.len()
            + self.alpha.windows.len()
            + self.max_own
            + self.alpha.forge.len()
            + 1
    }

    fn enabled(&self, w: &NodeWorld, _hist: &[u16], action: u16) -> bool {
        if w.out_of_scope {
            return false;
        }
        match self.decode(action) {
            Act::Foreign(i) => !w.foreign_delivered[i] && self.guard_ok(w, i),
            Act::Block(i) => !w.blocks_delivered[i],
            Act::Invalid(i) => !w.invalid_delivered[i],
            Act::FirstShred(i) => !w.fs_delivered[i] && !w.core.first_shred.contains(&self.alpha.first_shreds[i]),
            Act::Timer(i) => w.core.timers.get(&self.alpha.windows[i]).is_some_and(|s| *s < 5),
            Act::Loop(k) => k < w.own_msgs.len() && !w.own_delivered[k],
            Act::Forge(i) => !w.forged[i] && self.forge_spec(w, self.alpha.forge[i]).is_some(),
            Act::VotorStep => self.lag > 0 && !w.core.q.is_empty(),
        }
    }

    fn step(&self, w: &mut NodeWorld, action: u16, _check: bool) -> StepOutcome {
        verif_capture_timeouts(true);
        let mut out = StepOutcome::ok();
        let act = self.decode(action);
        let r = std::panic::catch_unwind(std::panic::AssertUnwindSafe(|| match act {
            Act::Foreign(i) => {
                w.foreign_delivered[i] = true;
                let o = match &self.alpha.foreign[i] {
                    Op::Vote(v) => w.core.pool.add_vote(self.factory.vote(v)).1,
                    Op::Cert(c) => w.core.pool.add_cert(self.factory.cert(c)).1,
                    _ => Out::default(),
                };
                self.enqueue(w, o);
                self.settle(w, &mut out, false);
            }
            Act::Loop(k) => {
                w.own_delivered[k] = true;
                let o = match w.own_msgs[k].clone() {
                    ConsensusMessage::Vote(v) => match crate::common::validate_vote_cached(&v, &self.epoch) {
                        Some(vv) => w.core.pool.add_vote(vv).1,
                        None => Out::default(),
                    },
                    ConsensusMessage::Cert(c) => match crate::common::validate_cert_cached(&c, &self.epoch) {
                        Some(vc) => w.core.pool.add_cert(vc).1,
                        None => Out::default(),
                    },
                };
                self.enqueue(w, o);
                self.settle(w, &mut out, false);
            }
            Act::Block(i) => {
                w.blocks_delivered[i] = true;
                let (b, p) = self.alpha.blocks[i];
                let slot = Slot::new(b.slot);
                if w.core.first_shred.insert(b.slot) {
                    w.core.blockstore_event(BlockstoreEvent::FirstShred(slot));
                }
                w.mon.blocks_known.insert(blk_id(b), blk_id(p));
                let info = BlockInfo::verif_new(blk_hash(b), blk_id(p));
                w.core.blockstore_event(BlockstoreEvent::Block { slot, block_info: info });
                self.collect(w, &mut out);
                let o = w.core.pool.add_block(blk_id(b), blk_id(p));
                self.enqueue(w, o);
                self.settle(w, &mut out, false);
            }
            Act::Invalid(i) => {
                w.invalid_delivered[i] = true;
                w.core.blockstore_event(BlockstoreEvent::InvalidBlock(Slot::new(self.alpha.invalid[i])));
                self.collect(w, &mut out);
            }
            Act::FirstShred(i) => {
                w.fs_delivered[i] = true;
                let s = self.alpha.first_shreds[i];
                w.core.first_shred.insert(s);
                w.core.blockstore_event(BlockstoreEvent::FirstShred(Slot::new(s)));
                self.collect(w, &mut out);
            }
            Act::Timer(i) => {
                w.core.fire_timer(self.alpha.windows[i]);
                self.collect(w, &mut out);
            }
            Act::VotorStep => {
                w.core.votor_step();
                self.collect(w, &mut out);
            }
            Act::Forge(i) => {
                w.forged[i] = true;
                if let Some(spec) = self.forge_spec(w, self.alpha.forge[i]) {
                    let raw = self.factory.raw_cert(&spec);
                    if let Some(vc) = crate::common::validate_cert_cached(&raw, &self.epoch) {
                        let o = w.core.pool.add_cert(vc).1;
                        self.enqueue(w, o);
                        self.settle(w, &mut out, false);
                    }
                }
            }
        }));
        if let Err(p) = r {
            let msg = p
                .downcast_ref::<String>()
                .cloned()
                .or_else(|| p.downcast_ref::<&str>().map(|s| s.to_string()))
                .unwrap_or_default();
            if msg.contains("consensus safety violation") {
                // the adversarial environment exceeded the fault assumption (conflicting
                // finalization evidence); outside the property's scope
                w.out_of_scope = true;
                out.fatal = true;
                return out;
            }
            match self.crash_focus {
                Some(p) => out.push(
                    format!("{p}:node-core-panicked:{}", crate::engine::panic_class(&msg)),
                    format!("the voting core of a correct node panicked (its task would be gone for good): {msg}"),
                ),
                None => out.push(
                    format!("C05:panic:{}", crate::engine::panic_class(&msg)),
                    format!("node core panicked: {msg}"),
                ),
            }
            out.fatal = true;
            return out;
        }
        if self.obligations && w.core.q.is_empty() {
            self.check_obligations(w, &mut out);
        }
        if let Some(p) = self.crash_focus {
            out.violations.retain(|(k, _)| k.starts_with(p));
        }
        if !out.violations.is_empty() {
            out.fatal = true;
        }
        out
    }

    fn digest(&self, w: &NodeWorld) -> u64 {
        let mut h = new_hasher();
        w.core.digest(&mut h);
        w.mon.digest(&mut h);
        for m in &w.own_msgs {
            match m {
                ConsensusMessage::Vote(v) => (0u8, v.slot(), v.block_hash(), vote_tag(v)).hash(&mut h),
                ConsensusMessage::Cert(c) => (1u8, c.slot(), c.block_hash(), cert_kind(c)).hash(&mut h),
            }
        }
        w.own_delivered.hash(&mut h);
        w.foreign_delivered.hash(&mut h);
        w.blocks_delivered.hash(&mut h);
        w.invalid_delivered.hash(&mut h);
        w.fs_delivered.hash(&mut h);
        w.forged.hash(&mut h);
        w.out_of_scope.hash(&mut h);
        h.finish()
    }

    fn describe(&self, action: u16) -> String {
        match self.decode(action) {
            Act::Foreign(i) => format!("deliver foreign {}", self.alpha.foreign[i].show()),
            Act::Block(i) => {
                let (b, p) = self.alpha.blocks[i];
                format!("block (s{},b{}) with parent (s{},b{}) arrives", b.slot, b.idx, p.slot, p.idx)
            }
            Act::Invalid(i) => format!("InvalidBlock(s{})", self.alpha.invalid[i]),
            Act::FirstShred(i) => format!("FirstShred(s{})", self.alpha.first_shreds[i]),
            Act::Timer(i) => format!("next timeout of window {}", self.alpha.windows[i]),
            Act::Loop(k) => format!("deliver own broadcast #{k} back to own pool"),
            Act::Forge(i) => format!("adversary aggregates and delivers a {:?} certificate for (s{}, b{}) from the votes signed so far", self.alpha.forge[i].0, self.alpha.forge[i].1, self.alpha.forge[i].2),
            Act::VotorStep => "votor consumes one queued pool event".into(),
        }
    }

    fn outcome(&self, w: &NodeWorld) -> u64 {
        let mut h = new_hasher();
        for (s, v) in &w.mon.votes {
            s.hash(&mut h);
            v.hash(&mut h);
        }
        h.finish()
    }
}

pub fn vote_tag(v: &Vote) -> u8 {
    match v {
        Vote::Notar(_) => 0,
        Vote::NotarFallback(_) => 1,
        Vote::Skip(_) => 2,
        Vote::SkipFallback(_) => 3,
        Vote::Final(_) => 4,
    }
}
