//! E2 system: one real `PoolImpl` driven by an alphabet of validated votes,
//! received certificates and block registrations, with the admission (C04),
//! certificate (C03) and fallback-signal (C06) oracles evaluated on every step.

use std::collections::{BTreeMap, BTreeSet, HashMap};
use std::hash::{Hash, Hasher};
use std::sync::{Arc, Mutex};

use alpenglow::consensus::{Cert, PoolEvent, ValidatedCert};
use alpenglow::types::{SLOTS_PER_EPOCH, Slot};
use alpenglow::consensus::Pool;

use crate::common::{Epoch, new_hasher};
use crate::engine::{StepOutcome, Sys};
use crate::pooldrv::*;

pub struct PoolSlotSys {
    pub name: String,
    pub epoch: Arc<Epoch>,
    pub own: usize,
    pub ops: Vec<Op>,
    pub factory: Factory,
    /// Property whose violations are reported ("C03", "C04", "C06"); others are dropped.
    pub focus: &'static str,
    /// Cache of third-party validation verdicts for created certificates.
    cert_cache: Mutex<HashMap<Vec<u8>, bool>>,
    pub max_blk: u8,
}

pub struct PoolWorld {
    pub pool: PoolH,
    pub rf: RefPool,
    pub delivered: Vec<bool>,
    /// CertCreated counts per (slot, kind, blk).
    pub created: BTreeMap<(u64, CK, u8), u32>,
    pub s2n_seen: BTreeMap<(u64, u8), u32>,
    pub s2s_seen: BTreeMap<u64, u32>,
}

impl PoolSlotSys {
    pub fn new(name: &str, epoch: Arc<Epoch>, own: usize, ops: Vec<Op>, focus: &'static str) -> Self {
        let mut factory = Factory::new(epoch.clone());
        factory.prepare(&ops);
        let max_blk = ops
            .iter()
            .map(|o| match o {
                Op::Vote(v) => v.blk,
                Op::Cert(c) => c.blk,
                Op::Block { blk, parent } => blk.idx.max(parent.idx),
                _ => 0,
            })
            .max()
            .unwrap_or(0);
        Self {
            name: name.to_string(),
            epoch,
            own,
            ops,
            factory,
            focus,
            cert_cache: Mutex::new(HashMap::new()),
            max_blk,
        }
    }

    fn third_party_accepts(&self, cert: &Cert) -> bool {
        let bytes = wincode::serialize(cert).expect("serialize");
        if let Some(v) = self.cert_cache.lock().unwrap().get(&bytes) {
            return *v;
        }
        let ok = ValidatedCert::try_new(cert.clone(), &self.epoch.info).is_ok();
        self.cert_cache.lock().unwrap().insert(bytes, ok);
        ok
    }

    fn slots(&self) -> BTreeSet<u64> {
        self.ops
            .iter()
            .flat_map(|o| match o {
                Op::Vote(v) => vec![v.slot],
                Op::Cert(c) => vec![c.slot],
                Op::Block { blk, parent } => vec![blk.slot, parent.slot],
                _ => vec![],
            })
            .collect()
    }

    /// C03 checks on a certificate the pool created from votes.
    fn check_created_cert(&self, w: &PoolWorld, cert: &Cert, out: &mut StepOutcome) {
        let slot = cert.slot().inner();
        let kind = cert_kind(cert);
        let st = w.rf.slot(slot);
        let blk = cert
            .block_hash()
            .and_then(|h| blk_idx_of(slot, h, self.max_blk));
        if !self.third_party_accepts(cert) {
            out.push(
                format!("C03:created-cert-rejected-by-validation:{kind:?}"),
                format!(
                    "pool created {kind:?} cert in slot {slot} with signers {:?} that ValidatedCert::try_new rejects",
                    cert.signers().map(|v| v.inner()).collect::<Vec<_>>()
                ),
            );
        }
        let signers: Vec<usize> = cert.signers().map(|v| v.inner() as usize).collect();
        let distinct: BTreeSet<usize> = signers.iter().copied().collect();
        if distinct.len() != signers.len() {
            out.push(
                format!("C03:signer-counted-twice:{kind:?}"),
                format!("{kind:?} cert in slot {slot} lists a signer twice: {signers:?}"),
            );
        }
        let allowed: BTreeSet<usize> = match kind {
            CK::Notar | CK::FastFinal => st
                .notar
                .iter()
                .filter(|(_, b)| Some(**b) == blk)
                .map(|(i, _)| *i)
                .collect(),
            CK::NotarFb => st
                .notar
                .iter()
                .filter(|(_, b)| Some(**b) == blk)
                .map(|(i, _)| *i)
                .chain(
                    st.nf
                        .iter()
                        .filter(|(_, b)| blk.is_some_and(|x| b.contains(&x)))
                        .map(|(i, _)| *i),
                )
                .collect(),
            CK::Skip => st.skip.iter().chain(st.sf.iter()).copied().collect(),
            CK::Final => st.fin.iter().copied().collect(),
        };
        if !distinct.is_subset(&allowed) {
            out.push(
                format!("C03:signer-without-accepted-vote:{kind:?}"),
                format!(
                    "{kind:?} cert in slot {slot}: signers {distinct:?} not within accepted voters {allowed:?}"
                ),
            );
        }
        let stake: u64 = distinct.iter().map(|i| self.epoch.stakes[*i]).sum();
        let need = if kind == CK::FastFinal { 4 } else { 3 };
        if !self.epoch.meets(stake, need, 5) {
            out.push(
                format!("C03:created-cert-below-threshold:{kind:?}"),
                format!(
                    "{kind:?} cert in slot {slot}: signer stake {stake} of {} below {need}/5 (signers {distinct:?}, accepted voters {allowed:?})",
                    self.epoch.total()
                ),
            );
        }
        if cert.stake().inner() != stake {
            out.push(
                format!("C03:declared-stake-mismatch:{kind:?}"),
                format!("{kind:?} cert declares stake {} but signers hold {stake}", cert.stake().inner()),
            );
        }
    }
}

impl Sys for PoolSlotSys {
    type World = PoolWorld;

    fn init(&self) -> PoolWorld {
        PoolWorld {
            pool: PoolH::new(&self.epoch, self.own),
            rf: RefPool::new(&self.epoch.stakes, self.own),
            delivered: vec![false; self.ops.len()],
            created: BTreeMap::new(),
            s2n_seen: BTreeMap::new(),
            s2s_seen: BTreeMap::new(),
        }
    }

    fn num_actions(&self) -> usize {
        self.ops.len()
    }

    fn enabled(&self, w: &PoolWorld, _hist: &[u16], action: u16) -> bool {
        if w.delivered[action as usize] {
            return false;
        }
        // stay within inputs that < 20% Byzantine stake can produce per slot
        match &self.ops[action as usize] {
            Op::Vote(v) => {
                if w.rf.admit(v) != Verdict::Ok {
                    return true;
                }
                let mut rf = w.rf.clone();
                rf.accept_vote(v);
                !rf.conflicting(v.slot)
            }
            Op::Cert(c) => {
                if w.rf.cert_held(c) {
                    return true;
                }
                let mut rf = w.rf.clone();
                rf.accept_cert(c);
                !rf.conflicting(c.slot)
            }
            _ => true,
        }
    }

    fn step(&self, w: &mut PoolWorld, action: u16, check: bool) -> StepOutcome {
        let mut out = StepOutcome::ok();
        let op = &self.ops[action as usize];
        w.delivered[action as usize] = true;
        let before = if check { w.pool.digest() } else { 0 };
        let first_unpruned = w.pool.pool.verif_first_unpruned_slot().inner();
        let finalized = w.pool.pool.finalized_slot().inner();
        let in_bounds = |slot: u64| slot >= first_unpruned && slot < finalized + 2 * SLOTS_PER_EPOCH;
        let mut expect_created: BTreeSet<(u64, CK, u8)> = BTreeSet::new();
        let mut refused = false;
        let o = match op {
            Op::Vote(v) => {
                let expected = if in_bounds(v.slot) { Some(w.rf.admit(v)) } else { None };
                let (r, o) = w.pool.add_vote(self.factory.vote(v));
                let (name, offence) = verdict_of(&r);
                match &expected {
                    None => {
                        refused = true;
                        if name != "SlotOutOfBounds" {
                            out.push(
                                "C04:bounds".to_string(),
                                format!("vote {} outside [first_unpruned={first_unpruned}, finalized+2*epoch) got {name}", v.show()),
                            );
                        }
                    }
                    Some(Verdict::Ok) => {
                        if name != "Ok" {
                            out.push(
                                format!("C04:legit-vote-refused:{:?}", v.kind),
                                format!("vote {} should be accepted, pool said {name} {offence:?}", v.show()),
                            );
                            refused = true;
                        } else {
                            for (k, b) in w.rf.accept_vote(v) {
                                expect_created.insert((v.slot, k, b));
                            }
                        }
                    }
                    Some(Verdict::Duplicate) => {
                        refused = true;
                        if name != "Duplicate" {
                            out.push(
                                format!("C04:repeat-not-duplicate:{:?}", v.kind),
                                format!("vote {} repeats/equals an accepted vote, pool said {name} {offence:?}", v.show()),
                            );
                        }
                    }
                    Some(Verdict::Slashable(allowed)) => {
                        refused = true;
                        let okk = name == "Slashable"
                            && offence.as_deref().is_some_and(|o| allowed.contains(&o));
                        if !okk {
                            out.push(
                                format!("C04:conflict-not-reported:{:?}", v.kind),
                                format!(
                                    "vote {} conflicts with an accepted vote (expected one of {allowed:?}), pool said {name} {offence:?}",
                                    v.show()
                                ),
                            );
                        }
                    }
                }
                o
            }
            Op::Cert(c) => {
                let held = w.rf.cert_held(c);
                let (r, o) = w.pool.add_cert(self.factory.cert(c));
                if !in_bounds(c.slot) {
                    refused = true;
                    if r != Err("SlotOutOfBounds".to_string()) {
                        out.push("C08:cert-bounds".to_string(), format!("{} got {r:?}", c.show()));
                    }
                } else if held {
                    refused = true;
                    if r != Err("Duplicate".to_string()) {
                        out.push(
                            format!("C03:second-cert-accepted:{:?}", c.kind),
                            format!("{} while one is held: pool said {r:?}", c.show()),
                        );
                    }
                } else {
                    if r.is_err() {
                        out.push(
                            format!("C03:valid-cert-refused:{:?}", c.kind),
                            format!("{} refused: {r:?}", c.show()),
                        );
                        refused = true;
                    } else {
                        w.rf.accept_cert(c);
                        expect_created.insert((c.slot, c.kind, if c.has_block() { c.blk } else { 0 }));
                    }
                }
                o
            }
            Op::Block { blk, parent } => {
                let o = w.pool.add_block(blk_id(*blk), blk_id(*parent));
                w.rf.add_block(*blk, *parent);
                o
            }
            Op::Standstill => w.pool.standstill(),
            Op::Wait(s) | Op::WaitAbandoned(s) => {
                let _ = w.pool.pool.wait_for_parent_ready(Slot::new(*s));
                Out::default()
            }
        };

        // --- bookkeeping needed also during replay
        let mut got_created: Vec<(u64, CK, u8)> = Vec::new();
        let mut got_s2n: Vec<(u64, u8)> = Vec::new();
        let mut got_s2s: Vec<u64> = Vec::new();
        for e in &o.events {
            match e {
                PoolEvent::CertCreated(cert) => {
                    let slot = cert.slot().inner();
                    let kind = cert_kind(cert);
                    let blk = cert
                        .block_hash()
                        .and_then(|h| blk_idx_of(slot, h, self.max_blk))
                        .unwrap_or(0);
                    *w.created.entry((slot, kind, blk)).or_default() += 1;
                    got_created.push((slot, kind, blk));
                    if check && matches!(op, Op::Vote(_)) {
                        self.check_created_cert(w, cert, &mut out);
                    }
                    if check && let Op::Cert(c) = op {
                        if cert != self.factory.cert_raw(c) {
                            out.push(
                                "C03:received-cert-altered".to_string(),
                                format!("CertCreated after receiving {} is a different certificate", c.show()),
                            );
                        }
                    }
                }
                PoolEvent::SafeToNotar((slot, hash)) => {
                    let b = blk_idx_of(slot.inner(), hash, self.max_blk).unwrap_or(255);
                    *w.s2n_seen.entry((slot.inner(), b)).or_default() += 1;
                    got_s2n.push((slot.inner(), b));
                }
                PoolEvent::SafeToSkip(slot) => {
                    *w.s2s_seen.entry(slot.inner()).or_default() += 1;
                    got_s2s.push(slot.inner());
                }
                _ => {}
            }
        }
        w.rf.pruned_below = w.pool.pool.verif_first_unpruned_slot().inner();
        let mut due_s2n: Vec<(u64, u8)> = Vec::new();
        let mut due_s2s: Vec<u64> = Vec::new();
        for s in self.slots() {
            let (n, k) = w.rf.update_signals(s);
            due_s2n.extend(n.into_iter().map(|b| (s, b)));
            if k {
                due_s2s.push(s);
            }
        }
        if !check {
            return out;
        }

        // --- C03: certificates appear exactly when due
        let got_set: BTreeSet<_> = got_created.iter().copied().collect();
        if got_set.len() != got_created.len() {
            out.push(
                "C03:cert-created-twice-in-step".to_string(),
                format!("after {}: CertCreated {:?}", op.show(), got_created),
            );
        }
        for missing in expect_created.difference(&got_set) {
            out.push(
                format!("C03:cert-missing:{:?}", missing.1),
                format!(
                    "after {}: accepted votes reach the threshold for {:?} (slot {}, blk {}) but no certificate was created",
                    op.show(), missing.1, missing.0, missing.2
                ),
            );
        }
        for extra in got_set.difference(&expect_created) {
            out.push(
                format!("C03:cert-unjustified:{:?}", extra.1),
                format!(
                    "after {}: certificate {:?} (slot {}, blk {}) created although the reference does not see its threshold reached / it already existed",
                    op.show(), extra.1, extra.0, extra.2
                ),
            );
        }
        for ((slot, kind, blk), n) in &w.created {
            if *n > 1 {
                out.push(
                    format!("C03:cert-created-more-than-once:{kind:?}"),
                    format!("{kind:?} for slot {slot} blk {blk} created {n} times"),
                );
            }
        }
        // queries agree with the reference
        for s in self.slots() {
            if s < w.pool.pool.verif_first_unpruned_slot().inner() {
                continue;
            }
            let st = w.rf.slot(s);
            let slot = Slot::new(s);
            let q = (
                w.pool.pool.has_notar_cert(slot),
                w.pool.pool.has_skip_cert(slot),
                w.pool.pool.has_final_cert(slot),
                w.pool.pool.has_notar_or_fallback_cert(slot),
            );
            let r = (
                st.c_notar.is_some(),
                st.c_skip,
                st.c_ff.is_some() || st.c_fin,
                st.c_notar.is_some() || !st.c_nf.is_empty(),
            );
            if q != r {
                out.push(
                    "C03:cert-queries-disagree".to_string(),
                    format!("slot {s}: has_(notar,skip,final,notar_or_fb) = {q:?}, reference {r:?} after {}", op.show()),
                );
            }
        }

        // --- C04: refused input leaves the state untouched
        if refused {
            let after = w.pool.digest();
            if after != before {
                out.push(
                    "C04:refused-input-changed-state".to_string(),
                    format!("{} was refused but the pool digest changed", op.show()),
                );
            }
            if !o.events.is_empty() {
                out.push(
                    "C04:refused-input-emitted-events".to_string(),
                    format!("{} was refused but emitted {:?}", op.show(), o.events.len()),
                );
            }
        }

        // --- C06: signals raised exactly when due, once
        let fin_now = w.pool.pool.finalized_slot().inner();
        let got: BTreeSet<_> = got_s2n.iter().copied().collect();
        let due: BTreeSet<_> = due_s2n.iter().copied().collect();
        for m in due.difference(&got) {
            // Once the slot is finalized at the node no fallback vote can matter any more and the
            // pool stops tracking parents below its watermark: a signal there is allowed, not required.
            if m.0 <= fin_now {
                continue;
            }
            out.push(
                format!("C06:safe-to-notar-missing:last={}", trigger_class(op, self.own)),
                format!(
                    "after {}: all safe-to-notar conditions hold for slot {} blk {} but no SafeToNotar was emitted",
                    op.show(), m.0, m.1
                ),
            );
        }
        for e in got.difference(&due) {
            // in a slot that is already finalized at the node a signal may come late (see above),
            // but only once and only if its conditions hold by now
            if e.0 <= fin_now && w.rf.slot(e.0).s2n_due.contains(&e.1) && w.s2n_seen.get(&(e.0, e.1)).copied().unwrap_or(0) == 1 {
                continue;
            }
            out.push(
                format!("C06:safe-to-notar-early-or-repeated:last={}", trigger_class(op, self.own)),
                format!(
                    "after {}: SafeToNotar for slot {} blk {} although the conditions do not (newly) hold",
                    op.show(), e.0, e.1
                ),
            );
        }
        if got.len() != got_s2n.len() {
            out.push("C06:safe-to-notar-twice-in-step".to_string(), format!("{got_s2n:?}"));
        }
        let got: BTreeSet<_> = got_s2s.iter().copied().collect();
        let due: BTreeSet<_> = due_s2s.iter().copied().collect();
        for m in due.difference(&got) {
            out.push(
                format!("C06:safe-to-skip-missing:last={}", trigger_class(op, self.own)),
                format!("after {}: safe-to-skip conditions hold for slot {m} but no SafeToSkip was emitted", op.show()),
            );
        }
        for e in got.difference(&due) {
            out.push(
                format!("C06:safe-to-skip-early-or-repeated:last={}", trigger_class(op, self.own)),
                format!("after {}: SafeToSkip for slot {e} although the conditions do not (newly) hold", op.show()),
            );
        }
        if got.len() != got_s2s.len() {
            out.push("C06:safe-to-skip-twice-in-step".to_string(), format!("{got_s2s:?}"));
        }

        // keep only the focus property's violations
        out.violations.retain(|(k, _)| k.starts_with(self.focus));
        if !out.violations.is_empty() {
            out.fatal = true;
        }
        out
    }

    fn digest(&self, w: &PoolWorld) -> u64 {
        let mut h = new_hasher();
        w.pool.digest().hash(&mut h);
        w.delivered.hash(&mut h);
        h.finish()
    }

    fn describe(&self, action: u16) -> String {
        self.ops[action as usize].show()
    }

    fn outcome(&self, w: &PoolWorld) -> u64 {
        let mut h = new_hasher();
        w.rf.fingerprint().hash(&mut h);
        w.created.hash(&mut h);
        w.s2n_seen.hash(&mut h);
        w.s2s_seen.hash(&mut h);
        h.finish()
    }
}

/// Which kind of input arrived last (classification key for C06 findings).
fn trigger_class(op: &Op, own: usize) -> String {
    match op {
        Op::Vote(v) if v.signer == own => format!("own-{:?}", v.kind),
        Op::Vote(v) => format!("vote-{:?}", v.kind),
        Op::Cert(c) => format!("cert-{:?}", c.kind),
        Op::Block { .. } => "block".into(),
        Op::Standstill => "standstill".into(),
        Op::Wait(_) | Op::WaitAbandoned(_) => "wait".into(),
    }
}

// ---------------------------------------------------------------------------
// alphabet helpers

pub fn votes(kind: VK, slot: u64, blk: u8, signers: &[usize]) -> Vec<Op> {
    signers
        .iter()
        .map(|s| {
            Op::Vote(VoteSpec {
                kind,
                slot,
                blk,
                signer: *s,
            })
        })
        .collect()
}

pub fn mask(signers: &[usize]) -> u32 {
    signers.iter().fold(0, |m, s| m | 1 << s)
}

pub fn cert(kind: CK, slot: u64, blk: u8, s1: &[usize], s2: &[usize]) -> Op {
    Op::Cert(CertSpec {
        kind,
        slot,
        blk,
        s1: mask(s1),
        s2: mask(s2),
    })
}

pub fn block(slot: u64, idx: u8, pslot: u64, pidx: u8) -> Op {
    Op::Block {
        blk: Blk { slot, idx },
        parent: Blk {
            slot: pslot,
            idx: pidx,
        },
    }
}
