//! E5: n real `Alpenglow` nodes in one paused, seeded, single-threaded tokio runtime over an
//! in-memory hub with per-link virtual delays, partitions, crashes and message injection.

use std::collections::{BTreeMap, BTreeSet};
use std::marker::PhantomData;
use std::net::SocketAddr;
use std::sync::{Arc, Mutex};
use std::time::Duration;

use alpenglow::all2all::TrivialAll2All;
use alpenglow::consensus::{Alpenglow, Cert, ConsensusMessage, SharedPool, Vote};
use alpenglow::disseminator::Rotor;
use alpenglow::disseminator::rotor::{IidQuorumSampler, StakeWeightedSampler};
use alpenglow::network::Network;
use alpenglow::repair::{RepairRequest, RepairResponse};
use alpenglow::shredder::Shred;
use alpenglow::types::Slot;
use alpenglow::Transaction;
use tokio::sync::mpsc;
use wincode::config::DefaultConfig;
use wincode::{SchemaRead, SchemaWrite};

use crate::common::{Epoch, make_epoch_ports};


pub const CH_A2A: u16 = 0;
pub const CH_DISS: u16 = 1;
pub const CH_REQ: u16 = 2;
pub const CH_RESP: u16 = 3;
pub const CH_TX: u16 = 4;

pub fn port(node: usize, ch: u16) -> u16 {
    1000 + (node as u16) * 10 + ch
}
pub fn node_of(p: u16) -> usize {
    ((p - 1000) / 10) as usize
}
pub fn chan_of(p: u16) -> u16 {
    (p - 1000) % 10
}

#[derive(Clone, Debug)]
pub struct WireRecord {
    pub at_ms: u64,
    pub from: usize,
    pub to: usize,
    pub chan: u16,
    pub len: usize,
}

pub struct HubInner {
    pub inboxes: BTreeMap<u16, mpsc::UnboundedSender<Vec<u8>>>,
    /// delay[from][to]
    pub delay: Vec<Vec<Duration>>,
    /// links currently cut (from, to): traffic is held back and released when the link heals
    pub cut: BTreeSet<(usize, usize)>,
    /// links currently lossy (from, to): traffic is dropped
    pub lossy: BTreeSet<(usize, usize)>,
    /// nodes that are crashed (nothing in or out)
    pub crashed: BTreeSet<usize>,
    /// hold all traffic until released
    pub hold: bool,
    pub held: Vec<(u16, Vec<u8>)>,
    pub max_len: usize,
    pub sent: usize,
    /// messages addressed to a validator that runs no node (the attacker): counted, not delivered
    pub to_attacker: usize,
    /// consensus messages seen on the wire (decoded), per sender
    pub certs: Vec<(u64, usize, Cert)>,
    pub votes: Vec<(u64, usize, Vote)>,
    pub record_consensus: bool,
    pub start: tokio::time::Instant,
    /// Extra delay (ms) per position from the end of the window for consensus messages:
    /// with r > 0 a message for the k-th slot of a window is delayed by (3 - k) * r, so that
    /// votes / certificates for later slots of a window overtake those for earlier ones.
    pub a2a_reorder_ms: u64,
    /// deviation-bounded exploration: the k-th consensus packet routed (per run, in routing
    /// order) gets the given extra delay in ms
    pub a2a_routed: u64,
    pub deviations: BTreeMap<u64, u64>,
}

pub struct Hub {
    pub inner: Mutex<HubInner>,
}

impl Hub {
    pub fn new(n: usize, default_delay: Duration) -> Arc<Self> {
        Arc::new(Self {
            inner: Mutex::new(HubInner {
                inboxes: BTreeMap::new(),
                delay: vec![vec![default_delay; n]; n],
                cut: BTreeSet::new(),
                lossy: BTreeSet::new(),
                crashed: BTreeSet::new(),
                hold: false,
                held: Vec::new(),
                max_len: 0,
                sent: 0,
                to_attacker: 0,
                certs: Vec::new(),
                votes: Vec::new(),
                record_consensus: true,
                start: tokio::time::Instant::now(),
                a2a_reorder_ms: 0,
                a2a_routed: 0,
                deviations: BTreeMap::new(),
            }),
        })
    }

    pub fn endpoint<S, R>(self: &Arc<Self>, node: usize, ch: u16) -> SimNet<S, R> {
        let (tx, rx) = mpsc::unbounded_channel();
        self.inner.lock().unwrap().inboxes.insert(port(node, ch), tx);
        SimNet {
            hub: self.clone(),
            own: port(node, ch),
            rx: tokio::sync::Mutex::new(rx),
            _p: PhantomData,
        }
    }

    fn route(self: &Arc<Self>, from_port: u16, to_port: u16, bytes: Vec<u8>) {
        let (from, to) = (node_of(from_port), node_of(to_port));
        let mut g = self.inner.lock().unwrap();
        g.sent += 1;
        g.max_len = g.max_len.max(bytes.len());
        if g.crashed.contains(&from) || g.crashed.contains(&to) || g.lossy.contains(&(from, to)) {
            return;
        }
        if g.record_consensus && chan_of(to_port) == CH_A2A && to == (from + 1) % g.delay.len() {
            // record each broadcast once (the copy addressed to the next node)
            let now = g.start.elapsed().as_millis() as u64;
            if let Ok(m) = alpenglow::network::deserialize::<ConsensusMessage>(&bytes) {
                match m {
                    ConsensusMessage::Cert(c) => g.certs.push((now, from, c)),
                    ConsensusMessage::Vote(v) => g.votes.push((now, from, v)),
                }
            }
        }
        if g.hold || g.cut.contains(&(from, to)) {
            g.held.push((to_port, bytes));
            return;
        }
        let mut d = g.delay[from][to];
        if g.a2a_reorder_ms > 0 && chan_of(to_port) == CH_A2A {
            if let Ok(m) = alpenglow::network::deserialize::<ConsensusMessage>(&bytes) {
                let slot = match &m {
                    ConsensusMessage::Cert(c) => c.slot().inner(),
                    ConsensusMessage::Vote(v) => v.slot().inner(),
                };
                d += Duration::from_millis((3 - slot % 4) * g.a2a_reorder_ms);
            }
        }
        if chan_of(to_port) == CH_A2A && from != to {
            let k = g.a2a_routed;
            g.a2a_routed += 1;
            if let Some(extra) = g.deviations.get(&k) {
                d += Duration::from_millis(*extra);
            }
        }
        let Some(tx) = g.inboxes.get(&to_port).cloned() else {
            if chan_of(to_port) == CH_REQ {
                g.to_attacker += 1;
            }
            return;
        };
        drop(g);
        tokio::spawn(async move {
            tokio::time::sleep(d).await;
            let _ = tx.send(bytes);
        });
    }

    /// Delivers `bytes` to `to_port` after `delay` (attacker / harness injection).
    pub fn inject(self: &Arc<Self>, to_port: u16, bytes: Vec<u8>, delay: Duration) {
        let Some(tx) = self.inner.lock().unwrap().inboxes.get(&to_port).cloned() else { return };
        tokio::spawn(async move {
            tokio::time::sleep(delay).await;
            let _ = tx.send(bytes);
        });
    }

    pub fn release(self: &Arc<Self>) {
        let held: Vec<(u16, Vec<u8>)> = {
            let mut g = self.inner.lock().unwrap();
            g.hold = false;
            g.cut.clear();
            g.lossy.clear();
            std::mem::take(&mut g.held)
        };
        for (to, bytes) in held {
            self.inject(to, bytes, Duration::from_millis(1));
        }
    }
}

pub struct SimNet<S, R> {
    hub: Arc<Hub>,
    own: u16,
    rx: tokio::sync::Mutex<mpsc::UnboundedReceiver<Vec<u8>>>,
    _p: PhantomData<fn(S) -> R>,
}

impl<S, R> Network for SimNet<S, R>
where
    S: SchemaWrite<DefaultConfig, Src = S> + Send + Sync,
    R: for<'de> SchemaRead<'de, alpenglow::network::NetworkMessageConfig, Dst = R> + Send + Sync,
{
    type Send = S;
    type Recv = R;

    async fn send(&self, m: &S, addr: SocketAddr) -> std::io::Result<()> {
        let bytes = wincode::serialize(m).expect("serialize");
        self.hub.route(self.own, addr.port(), bytes);
        Ok(())
    }

    async fn send_to_many(&self, m: &S, addrs: impl IntoIterator<Item = SocketAddr> + Send) -> std::io::Result<()> {
        let bytes = wincode::serialize(m).expect("serialize");
        for a in addrs {
            self.hub.route(self.own, a.port(), bytes.clone());
        }
        Ok(())
    }

    async fn receive(&self) -> std::io::Result<R> {
        loop {
            let Some(bytes) = self.rx.lock().await.recv().await else {
                return std::future::pending().await;
            };
            if let Ok(m) = alpenglow::network::deserialize::<R>(&bytes) {
                return Ok(m);
            }
        }
    }
}

pub type SimNode = Alpenglow<
    TrivialAll2All<SimNet<ConsensusMessage, ConsensusMessage>>,
    Rotor<SimNet<Shred, Shred>, IidQuorumSampler<StakeWeightedSampler>>,
    SimNet<Transaction, Transaction>,
>;

pub fn sim_epoch(stakes: &[u64]) -> Epoch {
    make_epoch_ports(stakes, |i, ch| port(i, ch))
}

pub fn build_node(e: &Epoch, hub: &Arc<Hub>, i: usize) -> SimNode {
    let vei = e.vei(i);
    let a2a = TrivialAll2All::new(e.info.validators().to_vec(), hub.endpoint::<ConsensusMessage, ConsensusMessage>(i, CH_A2A));
    let rotor = Rotor::new(hub.endpoint::<Shred, Shred>(i, CH_DISS), vei.clone());
    Alpenglow::new(
        e.sig_sks[i].clone(),
        e.sks[i].clone(),
        a2a,
        rotor,
        hub.endpoint::<RepairRequest, RepairResponse>(i, CH_REQ),
        hub.endpoint::<RepairResponse, RepairRequest>(i, CH_RESP),
        vei,
        hub.endpoint::<Transaction, Transaction>(i, CH_TX),
    )
}

pub fn runtime(seed: u64) -> tokio::runtime::Runtime {
    // whole nodes run their timers for real (in virtual time); an exploration engine that ran on
    // this worker thread before may have left the thread-local capture switch on
    alpenglow::consensus::verif::verif_capture_timeouts(false);
    let mut s = [0u8; 32];
    s[..8].copy_from_slice(&seed.to_le_bytes());
    tokio::runtime::Builder::new_current_thread()
        .enable_all()
        .start_paused(true)
        .rng_seed(tokio::runtime::RngSeed::from_bytes(&s))
        .build()
        .expect("runtime")
}

/// A started cluster: pool handles of the running nodes plus the hub.
pub struct Cluster {
    pub hub: Arc<Hub>,
    pub pools: Vec<Option<SharedPool>>,
    pub handles: Vec<Option<tokio::task::JoinHandle<anyhow::Result<()>>>>,
    pub epoch: Epoch,
}

impl Cluster {
    /// Builds all nodes whose index is not in `absent` (never started = crashed from the start).
    pub fn start(stakes: &[u64], default_delay: Duration, absent: &BTreeSet<usize>) -> Self {
        let epoch = sim_epoch(stakes);
        let n = stakes.len();
        let hub = Hub::new(n, default_delay);
        let mut pools = Vec::new();
        let mut handles = Vec::new();
        for i in 0..n {
            if absent.contains(&i) {
                hub.inner.lock().unwrap().crashed.insert(i);
                pools.push(None);
                handles.push(None);
                continue;
            }
            let node = build_node(&epoch, &hub, i);
            pools.push(Some(node.get_pool()));
            handles.push(Some(tokio::spawn(node.run())));
        }
        Self { hub, pools, handles, epoch }
    }

    pub async fn finalized(&self) -> Vec<Option<u64>> {
        let mut v = Vec::new();
        for p in &self.pools {
            match p {
                Some(p) => v.push(Some(p.read().await.finalized_slot().inner())),
                None => v.push(None),
            }
        }
        v
    }

    pub fn tasks_alive(&self) -> Vec<bool> {
        self.handles.iter().map(|h| h.as_ref().is_none_or(|h| !h.is_finished())).collect()
    }
}

pub fn leader_of(slot: u64, n: usize) -> usize {
    ((slot / alpenglow::types::SLOTS_PER_WINDOW) % n as u64) as usize
}

#[allow(dead_code)]
fn unused(_: Slot) {}
