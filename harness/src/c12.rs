//! C12: shreds are bound to leader, slot, slice and position; equivocation is detected.

use std::collections::BTreeMap;

use alpenglow::consensus::{AddShredError, Blockstore};
use alpenglow::crypto::signature::SecretKey;
use alpenglow::shredder::{Shred, ShredValidationError, SliceCommitment, TOTAL_SHREDS, ValidatedShred};
use alpenglow::types::Slot;
use rand::SeedableRng;
use rand::rngs::StdRng;
use serde_json::json;

use crate::bsdrv::*;
use crate::common::{Report, Samples, Tier, bh, catch};
use crate::wire::*;

struct Mutant {
    class: String,
    m: MShred,
    /// true iff only fields that neither the signature nor the Merkle path bind were changed
    unbound_only: bool,
    /// true iff the commitment (slot, slice index, last flag, slice root) is unchanged, i.e.
    /// only the signature bytes differ: a cached identical commitment may shortcut verification
    commitment_unchanged: bool,
}

fn mutants(base: &MShred, other_sig: [u8; 64], thorough: bool) -> Vec<Mutant> {
    let mut out = Vec::new();
    let mut push = |class: &str, m: MShred, unbound: bool| {
        let sig_only = class.starts_with("signature-");
        out.push(Mutant { class: class.to_string(), m, unbound_only: unbound, commitment_unchanged: sig_only || unbound });
    };
    // header
    for d in [1u64, u64::MAX, 1 << 32] {
        let mut m = base.clone();
        m.p_mut().header.slot = m.p().header.slot.wrapping_add(d);
        push("slot-changed", m, false);
    }
    for idx in [0u64, 1, 2, 3, 1023] {
        if idx != base.p().header.slice_index {
            let mut m = base.clone();
            m.p_mut().header.slice_index = idx;
            push("slice-index-changed", m, false);
        }
    }
    // slot and slice index changed together (replays under a neighbouring slot with the slice index
    // shifted by a power of two: catches commitments that pack the two fields non-injectively)
    for ds in [-2i64, -1, 1, 2] {
        for mult in [1i64, 2, 32, 63, 64, 65, 128, 256, 512, 1024] {
            let slot = base.p().header.slot as i64 + ds;
            let slice = base.p().header.slice_index as i64 - ds * mult;
            if slot >= 0 && (0..1024).contains(&slice) {
                let mut m = base.clone();
                m.p_mut().header.slot = slot as u64;
                m.p_mut().header.slice_index = slice as u64;
                push("slot-and-slice-changed-together", m, false);
            }
        }
    }
    let mut m = base.clone();
    m.p_mut().header.is_last = !m.p().header.is_last;
    push("last-flag-flipped", m, false);
    // shred index -> each of the other 63
    for i in 0..64u64 {
        if i != base.p().shred_index {
            let mut m = base.clone();
            m.p_mut().shred_index = i;
            push("shred-index-changed", m, false);
        }
    }
    // payload bytes
    let n = base.p().data.len();
    let step = if thorough { 1 } else { 7 };
    for b in (0..n).step_by(step) {
        // thorough: every bit of every payload byte; quick: one bit of every 7th byte
        let bits: Vec<usize> = if thorough { (0..8).collect() } else { vec![b % 8] };
        for bit in bits {
            let mut m = base.clone();
            m.p_mut().data[b] ^= 1 << bit;
            push("payload-bit-flipped", m, false);
        }
    }
    let mut m = base.clone();
    m.p_mut().data.pop();
    push("payload-truncated", m, false);
    let mut m = base.clone();
    m.p_mut().data.push(0);
    push("payload-extended", m, false);
    let mut m = base.clone();
    m.p_mut().data.clear();
    push("payload-emptied", m, false);
    // proof
    for e in 0..base.path.len() {
        // thorough: every byte of every proof element; quick: one byte per element
        let bytes: Vec<usize> = if thorough { (0..32).collect() } else { vec![e % 32] };
        for byte in bytes {
            let mut m = base.clone();
            m.path[e][byte] ^= 0x40;
            push("proof-element-flipped", m, false);
        }
        let mut m = base.clone();
        m.path.remove(e);
        push("proof-element-dropped", m, false);
        if e + 1 < base.path.len() {
            let mut m = base.clone();
            m.path.swap(e, e + 1);
            push("proof-elements-swapped", m, false);
        }
    }
    for l in 0..=33usize {
        if l != base.path.len() {
            let mut m = base.clone();
            m.path.truncate(l);
            while m.path.len() < l {
                m.path.push([0x5a; 32]);
            }
            push("proof-length-changed", m, false);
        }
    }
    // signature
    let sstep = if thorough { 1 } else { 5 };
    for b in (0..64).step_by(sstep) {
        let bits: Vec<u8> = if thorough { (0..8).collect() } else { vec![0] };
        for bit in bits {
            let mut m = base.clone();
            m.sig[b] ^= 1 << bit;
            push("signature-byte-flipped", m, false);
        }
    }
    let mut m = base.clone();
    m.sig = other_sig;
    push("signature-of-other-slice", m, false);
    let mut m = base.clone();
    m.sig = [0; 64];
    push("signature-zeroed", m, false);
    // data / coding tag
    let mut m = base.clone();
    m.flip_tag();
    push("type-tag-flipped", m, true);
    out
}

fn validate(m: &MShred, cached: Option<&SliceCommitment>, pk: &alpenglow::crypto::signature::PublicKey) -> Result<Result<ValidatedShred, String>, String> {
    catch(|| match from_mirror::<MShred, Shred>(m) {
        Err(e) => Err(format!("decode: {e}")),
        Ok(s) => ValidatedShred::try_new(s, cached, pk).map_err(|e| match e {
            ShredValidationError::Equivocation => "Equivocation".to_string(),
            ShredValidationError::InvalidSignature => "InvalidSignature".to_string(),
            // tolerate variants added by the code under test (any rejection is a rejection)
            #[allow(unreachable_patterns)]
            other => format!("{other:?}"),
        }),
    })
}

pub fn run(tier: Tier) -> i32 {
    let report = Report::new("C12", tier, "exploration");
    let sk = leader_key();
    let pk = sk.to_pk();
    let parent = Some((Slot::new(4), bh("p4")));
    let specs = vec![
        SliceSpec { parent: parent.clone(), txs: vec![vec![1; 40]], raw: None },
        SliceSpec { parent: None, txs: vec![vec![2; 300], vec![3; 17]], raw: None },
    ];
    let block = sign_block(5, &specs, &sk);
    let single = sign_block(7, &[SliceSpec { parent: Some((Slot::new(5), block.hash.clone())), txs: vec![], raw: None }], &sk);
    // alternative validly signed slices of the same leader
    let (_, alt_data) = sign_slice(5, 1, true, &SliceSpec { parent: None, txs: vec![vec![9; 300], vec![3; 17]], raw: None }, &sk);
    let (_, alt_flag) = sign_slice(5, 1, false, &specs[1], &sk);
    let (_, other_slot) = sign_slice(6, 1, true, &SliceSpec { parent: None, txs: vec![vec![7; 120]], raw: None }, &sk);
    roundtrip_check::<Shred, MShred>(block.shreds[0][0].as_shred(), "shred");

    // every shred the leader really produced (a "mutant" byte-equal to one of these is genuine:
    // e.g. two all-padding data shreds of a small slice differ only in their index)
    let mut genuine: std::collections::HashSet<Vec<u8>> = std::collections::HashSet::new();
    for set in block.shreds.iter().chain(single.shreds.iter()).chain([&alt_data, &alt_flag, &other_slot]) {
        for s in set.iter() {
            genuine.insert(wincode::serialize(s.as_shred()).expect("ser"));
        }
    }
    let mut evals = 0usize;
    let mut nontrivial = 0usize;
    let mut samples = Samples::new(6);
    let mut classes: BTreeMap<String, usize> = BTreeMap::new();
    let mut passing: Vec<(usize, usize, String, MShred)> = Vec::new();
    let thorough = tier == Tier::Thorough;
    let idxs: Vec<usize> = if thorough { (0..64).collect() } else { vec![0, 31, 32, 63] };
    // thorough: a slice close to the size limit as well (1 KiB per shred)
    let big = sign_block(9, &[SliceSpec { parent: Some((Slot::new(7), single.hash.clone())), txs: (0..60u8).map(|t| vec![t; 500]).collect(), raw: None }], &sk);
    let mut bases: Vec<(&str, &SignedBlock, usize)> = vec![("two-slice/0", &block, 0), ("two-slice/1-last", &block, 1), ("single-slice", &single, 0)];
    if thorough {
        bases.push(("single-slice-30KB", &big, 0));
        for s in big.shreds[0].iter() {
            genuine.insert(wincode::serialize(s.as_shred()).expect("ser"));
        }
    }
    for (bname, blk, si) in &bases {
        for &i in &idxs {
            let vs = &blk.shreds[*si][i];
            let base: MShred = to_mirror(vs.as_shred());
            let same = vs.commitment();
            let other_sig: [u8; 64] = to_mirror::<Shred, MShred>(blk.shreds[(*si + 1) % blk.shreds.len()][i].as_shred()).sig;
            let other_sig = if blk.shreds.len() == 1 { to_mirror::<Shred, MShred>(block.shreds[0][i].as_shred()).sig } else { other_sig };
            let equiv = alt_data[i].commitment();
            let foreign = other_slot[i].commitment();
            // genuine shred under each cache state
            for (cname, cached, want) in [
                ("none", None, Ok(())),
                ("identical", Some(&same), Ok(())),
                ("conflicting-signed", Some(&equiv), Err("Equivocation")),
            ] {
                // the conflicting cache entry only makes sense for the slice it conflicts with
                if cname == "conflicting-signed" && !(*bname == "two-slice/1-last") {
                    continue;
                }
                evals += 1;
                let r = validate(&base, cached, &pk);
                let replay = json!({"base": bname, "shred_index": i, "mutation": "genuine", "cache": cname});
                match (r, want) {
                    (Err(p), _) => report.violation("C12:validation-panics:genuine", p, replay),
                    (Ok(Ok(_)), Ok(())) => {}
                    (Ok(Err(e)), Err(w)) if e == w => {}
                    (Ok(Ok(_)), Err(_)) => report.violation(
                        "C12:equivocation-silently-accepted",
                        format!("genuine shred accepted although the cache holds a different validly signed commitment ({bname}, shred {i})"),
                        replay,
                    ),
                    (Ok(Err(e)), Ok(())) => report.violation("C12:genuine-shred-rejected", format!("{e} with cache {cname} ({bname}, shred {i})"), replay),
                    (Ok(Err(e)), Err(w)) => report.violation(
                        "C12:equivocation-misreported",
                        format!("expected {w}, got {e} ({bname}, shred {i})"),
                        replay,
                    ),
                }
            }
            // a shred of the conflicting slice against the genuine cache entry: Equivocation, both directions
            if *bname == "two-slice/1-last" {
                for (dname, alt) in [("different-data", &alt_data), ("different-last-flag", &alt_flag)] {
                    evals += 1;
                    nontrivial += 1;
                    let am: MShred = to_mirror(alt[i].as_shred());
                    let r = validate(&am, Some(&same), &pk);
                    let replay = json!({"conflict": dname, "shred_index": i});
                    match r {
                        Ok(Err(e)) if e == "Equivocation" => {}
                        other => report.violation(
                            format!("C12:conflicting-slice-not-equivocation:{dname}"),
                            format!("validly signed conflicting slice ({dname}) against cached genuine commitment gave {:?}", other.map(|r| r.map(|_| "Ok"))),
                            replay,
                        ),
                    }
                }
            }
            // mutants
            for mu in mutants(&base, other_sig, thorough) {
                if genuine.contains(&enc(&mu.m)) {
                    continue;
                }
                *classes.entry(mu.class.clone()).or_default() += 1;
                for (cname, cached) in [("none", None), ("identical", Some(&same)), ("conflicting-signed", Some(&equiv)), ("foreign-signed", Some(&foreign))] {
                    evals += 1;
                    nontrivial += 1;
                    let replay = json!({"base": bname, "shred_index": i, "mutation": mu.class, "cache": cname});
                    samples.push(|| replay.clone());
                    match validate(&mu.m, cached, &pk) {
                        Err(p) => report.violation(format!("C12:validation-panics:{}", mu.class), p, replay),
                        Ok(Ok(_)) => {
                            if mu.commitment_unchanged && cname == "identical" {
                                // the statement allows a cached identical commitment to shortcut verification;
                                // what gets through this way must still not hurt the correct leader (oracle 2)
                                if !passing.iter().any(|(a, b, c, _)| *a == *si && *b == i && c == &format!("{bname}/{}", mu.class)) {
                                    passing.push((*si, i, format!("{bname}/{}", mu.class), mu.m.clone()));
                                }
                            } else if !mu.unbound_only {
                                report.violation(
                                    format!("C12:altered-shred-accepted:{}:cache-{cname}", mu.class),
                                    format!("shred altered by '{}' ({bname}, shred {i}) passed validation with cache '{cname}'", mu.class),
                                    replay,
                                );
                            } else if cname == "conflicting-signed" || cname == "foreign-signed" {
                                report.violation(
                                    format!("C12:cache-turned-mismatch-into-accept:{}", mu.class),
                                    format!("{bname} shred {i} accepted against a different cached commitment"),
                                    replay,
                                );
                            } else if cname == "none" {
                                passing.push((*si, i, format!("{bname}/{}", mu.class), mu.m.clone()));
                            }
                        }
                        Ok(Err(_)) => {}
                    }
                }
            }
        }
    }

    // Oracle 2: whatever passes validation for the correct leader's slices must not get the leader flagged
    let mut fed = 0usize;
    for (si, i, what, m) in &passing {
        if !what.starts_with("two-slice") {
            continue;
        }
        let shred: Shred = from_mirror(m).expect("decodes");
        for position in ["first", "middle", "threshold", "after-reconstruction"] {
            fed += 1;
            evals += 1;
            nontrivial += 1;
            let replay = json!({"oracle": "passing-mutant-into-blockstore", "mutant": what, "slice": si, "shred_index": i, "position": position});
            let r = catch(|| {
                let mut bs = BsH::new();
                let mut events = Vec::new();
                let others: Vec<usize> = (0..TOTAL_SHREDS).filter(|x| x != i).collect();
                let place = match position {
                    "first" => 0,
                    "middle" => 16,
                    "threshold" => 31,
                    _ => 40,
                };
                for (k, o) in others.iter().take(45).enumerate() {
                    if k == place {
                        // exactly what a node does: validate against the blockstore's cached commitment
                        let cached = bs_cached(&bs, 5, *si);
                        if let Ok(v) = ValidatedShred::try_new(shred.clone(), cached.as_ref(), &pk) {
                            let (_, ev) = bs.add_diss(v);
                            events.extend(ev);
                        }
                    }
                    let (_, ev) = bs.add_diss(block.shreds[*si][*o].clone());
                    events.extend(ev);
                }
                // the other slice completely
                for s in block.shreds[1 - *si].iter().take(40) {
                    let (_, ev) = bs.add_diss(s.clone());
                    events.extend(ev);
                }
                events
            });
            match r {
                Err(p) => report.violation("C12:blockstore-panics-on-validated-shred", p, replay),
                Ok(events) => {
                    let invalid = events.iter().any(|e| matches!(e, Ev::Invalid(_)));
                    let rebuilt = events.iter().any(|e| matches!(e, Ev::Block(_, h, _) if *h == block.hash));
                    if invalid || !rebuilt {
                        report.violation(
                            format!("C12:validated-shred-gets-correct-leader-flagged:{}", what.split('/').last().unwrap_or("")),
                            format!(
                                "a shred that passes validation ({what}, shred {i}) fed {position} among genuine shreds: InvalidBlock emitted = {invalid}, block rebuilt = {rebuilt}"
                            ),
                            replay,
                        );
                    }
                }
            }
        }
    }

    // Oracle 3: two conflicting signed slices at the blockstore, both arrival orders
    for (dname, alt) in [("different-data", &alt_data), ("different-last-flag", &alt_flag)] {
        for order in ["genuine-first", "conflicting-first"] {
            for (i1, i2) in [(0usize, 1usize), (5, 5), (40, 3)] {
                evals += 1;
                nontrivial += 1;
                let replay = json!({"oracle": "conflicting-slices-at-blockstore", "conflict": dname, "order": order, "shreds": [i1, i2]});
                let r = catch(|| {
                    let mut bs = BsH::new();
                    let (a, b) = if order == "genuine-first" { (&block.shreds[1][i1], &alt[i2]) } else { (&alt[i1], &block.shreds[1][i2]) };
                    let (r1, e1) = bs.add_diss(a.clone());
                    let (r2, e2) = bs.add_diss(b.clone());
                    // afterwards nothing from dissemination may complete a block
                    let mut later = Vec::new();
                    for s in block.shreds[0].iter().chain(block.shreds[1].iter()) {
                        later.extend(bs.add_diss(s.clone()).1);
                    }
                    (r1.map(|_| ()), r2.map(|_| ()), e1, e2, later)
                });
                match r {
                    Err(p) => report.violation("C12:blockstore-panics-on-conflict", p, replay),
                    Ok((r1, r2, _e1, e2, later)) => {
                        if r1.is_err() {
                            report.violation("C12:first-shred-of-slot-refused", format!("{r1:?}"), replay.clone());
                        }
                        if r2 != Err(AddShredError::Equivocation) || !e2.contains(&Ev::Invalid(5)) {
                            report.violation(
                                format!("C12:equivocation-silently-accepted-by-blockstore:{dname}:{order}"),
                                format!("second validly signed conflicting commitment for slot 5 slice 1 ({dname}, {order}): result {r2:?}, events {e2:?}"),
                                replay.clone(),
                            );
                        }
                        if later.iter().any(|e| matches!(e, Ev::Block(..))) {
                            report.violation("C12:block-announced-after-equivocation".to_string(), format!("{later:?}"), replay);
                        }
                    }
                }
            }
        }
    }

    // Oracle 3b: the conflicting commitment arrives after k genuine shreds of the slice (and
    // possibly the whole block) are already stored: it must still be reported, never absorbed
    for (dname, alt) in [("different-data", &alt_data), ("different-last-flag", &alt_flag)] {
        for prior in ["31-of-slice", "slice-reconstructed", "other-slice-complete", "block-complete"] {
            for i2 in [0usize, 5, 40, 63] {
                evals += 1;
                nontrivial += 1;
                let replay = json!({"oracle": "conflicting-slice-after-genuine-shreds", "conflict": dname, "genuine_shreds_stored_before": prior, "conflicting_shred": i2});
                let r = catch(|| {
                    let mut bs = BsH::new();
                    let mut before = Vec::new();
                    let feed: Vec<&alpenglow::shredder::ValidatedShred> = match prior {
                        "31-of-slice" => block.shreds[1].iter().take(31).collect(),
                        "slice-reconstructed" => block.shreds[1].iter().take(32).collect(),
                        "other-slice-complete" => block.shreds[0].iter().take(32).chain(block.shreds[1].iter().take(3)).collect(),
                        _ => block.shreds[0].iter().take(32).chain(block.shreds[1].iter().take(32)).collect(),
                    };
                    for s in feed {
                        before.extend(bs.add_diss(s.clone()).1);
                    }
                    let (r2, e2) = bs.add_diss(alt[i2].clone());
                    (before, r2.map(|_| ()), e2)
                });
                match r {
                    Err(p) => report.violation("C12:blockstore-panics-on-conflict", p, replay),
                    Ok((before, r2, e2)) => {
                        if before.iter().any(|e| matches!(e, Ev::Invalid(_))) {
                            report.violation("C12:validated-shred-gets-correct-leader-flagged:prefix".to_string(), format!("genuine shreds alone produced {before:?}"), replay.clone());
                        }
                        if r2 != Err(AddShredError::Equivocation) || !e2.contains(&Ev::Invalid(5)) {
                            report.violation(
                                format!("C12:equivocation-silently-accepted-by-blockstore:{dname}:after-{prior}"),
                                format!("validly signed conflicting commitment for slot 5 slice 1 ({dname}) arriving after {prior}: result {r2:?}, events {e2:?}"),
                                replay,
                            );
                        }
                    }
                }
            }
        }
    }

    let node_cases = node_level(&report);
    evals += node_cases;
    nontrivial += node_cases;
    // the repair path admits shreds too (Repair::handle_response): signature-only mutants through it
    let repair_cases = if crate::common::replay_req().is_some() { 0 } else { crate::c14::c12_repair_probe(&report, tier) };
    println!("  repair admission histories: {repair_cases}");
    evals += repair_cases;
    nontrivial += repair_cases;
    let cov = json!({
        "evaluations": evals,
        "distinct_nontrivial": nontrivial,
        "rule": "base shreds (indices at both ends and around the data/coding boundary) of a 2-slice and a 1-slice block signed by the leader; every mutation of the menu (slot, slice index, slot and slice index together, last flag, shred index -> each of the other 63, one flipped bit per payload byte (quick: every 7th), payload length, every proof element flipped/dropped/swapped, proof lengths 0..33, signature bytes flipped / replaced, type tag) x cached commitment in {none, identical, different validly signed one, one of another slot}; every mutant that passes validation is fed with genuine shreds at 4 positions to a real blockstore; two conflicting signed slices in both orders at the blockstore, and the conflicting slice arriving after 31 / 32 genuine shreds of the slice, after the other slice, and after the whole block was stored; non-trivial = every mutated or conflicting case; all distinct by construction",
        "exhaustive": true,
        "mutants_per_class_and_base": classes,
        "mutants_passing_validation": passing.len(),
        "fed_to_blockstore": fed,
        "repair_admission_histories": repair_cases,
        "repair_admission_rule": "a real Repair instance repairing a 1- / 2- (thorough: 3-) slice block over scripted peers; the answers to one, every second or every shred request carry shreds that are genuine in everything but the signature (one bit flipped; made with another validator's key over the genuine commitment); afterwards every shred stored under the block's id must verify under the leader's key",
        "samples": samples.items,
    });
    report.finish(cov)
}


/// Oracle 4 (node level): a real `Alpenglow` node that receives two validly signed, conflicting
/// commitments for one slice must report the leader (observable: it votes skip for the leader's
/// window long before any timeout), whichever arrives first and even if the conflict is only
/// visible through the cached commitment.
fn node_level(report: &Report) -> usize {
    use crate::simnet::*;
    use alpenglow::consensus::Vote;
    use std::collections::BTreeSet;
    use std::time::Duration;
    let mut cases = 0;
    for (cname, second_differs_in) in [("different-data", "data"), ("different-last-flag", "flag")] {
        for order in ["genuine-first", "conflicting-first"] {
            cases += 1;
            let r = catch(|| {
                let rt = runtime(3);
                rt.block_on(async {
                    let stakes = [21u64, 20, 20, 19, 20];
                    let attacker = 3usize;
                    let victim = 1usize;
                    let absent: BTreeSet<usize> = [0usize, 2, 3, 4].into_iter().collect();
                    let cluster = Cluster::start(&stakes, Duration::from_millis(1), &absent);
                    cluster.hub.inner.lock().unwrap().crashed.clear();
                    let sk = &cluster.epoch.sig_sks[attacker];
                    let slot = 13u64; // window 3 is led by validator 3
                    let base = SliceSpec { parent: None, txs: vec![vec![1; 20]], raw: None };
                    let (_, a) = sign_slice(slot, 1, false, &base, sk);
                    let (_, b) = if second_differs_in == "data" {
                        sign_slice(slot, 1, false, &SliceSpec { parent: None, txs: vec![vec![2; 20]], raw: None }, sk)
                    } else {
                        sign_slice(slot, 1, true, &base, sk)
                    };
                    let (x, y) = if order == "genuine-first" { (&a, &b) } else { (&b, &a) };
                    tokio::time::sleep(Duration::from_millis(20)).await;
                    cluster.hub.inject(port(victim, CH_DISS), wincode::serialize(x[5].as_shred()).unwrap(), Duration::from_millis(1));
                    cluster.hub.inject(port(victim, CH_DISS), wincode::serialize(y[9].as_shred()).unwrap(), Duration::from_millis(5));
                    tokio::time::sleep(Duration::from_millis(200)).await;
                    let g = cluster.hub.inner.lock().unwrap();
                    let skips: BTreeSet<u64> = g.votes.iter().filter_map(|(_, from, v)| match v {
                        Vote::Skip(_) if *from == victim => Some(v.slot().inner()),
                        _ => None,
                    }).collect();
                    (skips, crate::common::take_thread_panics())
                })
            });
            let replay = json!({"oracle": "node-level-equivocation", "conflict": cname, "order": order});
            match r {
                Err(p) => report.violation("C12:node-panics-on-equivocation".to_string(), p, replay),
                Ok((skips, panics)) => {
                    if !panics.is_empty() {
                        report.violation("C12:node-panics-on-equivocation".to_string(), format!("{:?}", panics.first()), replay.clone());
                    }
                    if !skips.contains(&13) {
                        report.violation(
                            format!("C12:equivocation-not-reported-by-node:{cname}:{order}"),
                            format!("a real node received two validly signed conflicting commitments ({cname}, {order}) for slot 13 slice 1 and did not report the leader (no skip vote for the window within 200 ms; skip votes seen for slots {skips:?})"),
                            replay,
                        );
                    }
                }
            }
        }
    }
    cases
}

fn bs_cached(bs: &BsH, slot: u64, slice: usize) -> Option<SliceCommitment> {
    bs.bs.cached_commitment(Slot::new(slot), crate::c11::slice_index(slice))
}

#[allow(dead_code)]
fn unused(_: SecretKey, _: StdRng) {
    let _ = StdRng::seed_from_u64(0);
}
