//! C20: execution state - persistent map semantics, fork isolation, content commitment (E2).

use std::collections::{BTreeMap, HashSet, VecDeque};

use alpenglow::crypto::Hash;
use alpenglow::crypto::merkle::BlockHash;
use alpenglow::execution::state::State;
use alpenglow::execution::{Address, DummyExecution, ExecutionEngine, ExecutionEvent, InProgressBlock, LtHash, StateCommitment};
use alpenglow::types::Slot;
use alpenglow::{BlockId, Transaction};
use serde_json::{Value, json};
use tokio::sync::mpsc;

use crate::common::{Report, Tier, bh, catch};

fn keys() -> Vec<Address> {
    let mut v = vec![[0u8; 32]];
    let mut set = |byte: usize, val: u8| {
        let mut k = [0u8; 32];
        k[byte] = val;
        k
    };
    v.push(set(0, 0b1000_0000)); // differs at trie level 0
    v.push(set(0, 0b0000_0100)); // shares 1 level (bit 5)
    v.push(set(0, 0b0000_0001)); // low bit of the byte straddling levels 1/2
    v.push(set(1, 0b0010_0000)); // shares 2 levels (bit 10)
    v.push(set(31, 0b0000_0001)); // shares 51 levels (bit 255)
    v.push(set(6, 0b0010_0000)); // shares 10 levels (bit 50)
    v.push(set(15, 0b0000_0100)); // shares 25 levels (bit 125)
    v.push(set(31, 0b0000_0010)); // bit 254
    v
}

#[derive(Clone)]
struct Fork {
    real: State,
    lt: LtHash,
    rf: BTreeMap<Address, Vec<u8>>,
}

#[derive(Clone)]
struct World {
    forks: Vec<Fork>,
    active: usize,
}

type Key = (Vec<Vec<(usize, u8)>>, usize);

fn content_key(w: &World, ks: &[Address]) -> Key {
    (
        w.forks
            .iter()
            .map(|f| f.rf.iter().map(|(k, v)| (ks.iter().position(|x| x == k).unwrap(), v.first().copied().unwrap_or(0))).collect())
            .collect(),
        w.active,
    )
}

#[derive(Clone, Debug)]
enum Op {
    Insert(usize, u8),
    Remove(usize),
    Fork,
    Switch(usize),
}

fn check_world(w: &World, ks: &[Address], absent: &Address, trace: &[Op], report: &Report) -> bool {
    let mut ok = true;
    let mut fail = |key: &str, what: String| {
        report.violation(key.to_string(), what, json!({"ops": trace.iter().map(|o| format!("{o:?}")).collect::<Vec<_>>()}));
        ok = false;
    };
    for (fi, f) in w.forks.iter().enumerate() {
        for (ki, k) in ks.iter().chain([absent]).enumerate() {
            let got = f.real.get(k).map(|v| v.to_vec());
            let want = f.rf.get(k).cloned();
            if got != want {
                fail("C20:lookup-differs-from-ordered-map", format!("fork {fi} get(key {ki}) = {got:?}, ordered map has {want:?}"));
            }
        }
        if f.real.len() != f.rf.len() || f.real.is_empty() != f.rf.is_empty() {
            fail("C20:len-differs", format!("fork {fi}: len {} vs {}", f.real.len(), f.rf.len()));
        }
        let it: Vec<(Address, Vec<u8>)> = f.real.iter().map(|(k, v)| (*k, v.to_vec())).collect();
        let want: Vec<(Address, Vec<u8>)> = f.rf.iter().map(|(k, v)| (*k, v.clone())).collect();
        if it != want {
            fail("C20:ordered-iteration-differs", format!("fork {fi}: iter yields {} entries in a different order/content", it.len()));
        }
        // canonical: equal contents => equal states, whatever produced them
        let mut canon = State::new();
        let mut lt = LtHash::identity();
        for (k, v) in &f.rf {
            canon.insert(*k, v.clone());
            lt.add_entry(k, v);
        }
        if canon != f.real {
            fail("C20:equal-contents-unequal-states", format!("fork {fi}: state differs from one rebuilt from the same contents"));
        }
        let mut rev = State::new();
        for (k, v) in f.rf.iter().rev() {
            rev.insert(*k, v.clone());
        }
        if rev != f.real {
            fail("C20:equal-contents-unequal-states", format!("fork {fi}: state differs from one rebuilt in reverse order"));
        }
        if lt.digest() != f.lt.digest() {
            fail("C20:incremental-commitment-differs", format!("fork {fi}: incrementally maintained LtHash differs from the one recomputed from contents"));
        }
    }
    ok
}

fn apply(w: &mut World, op: &Op, ks: &[Address], trace: &[Op], report: &Report) {
    match op {
        Op::Insert(k, v) => {
            let f = &mut w.forks[w.active];
            // value code 0 = the zero-length value (an ordinary entry, not a vacant slot)
            let val: Vec<u8> = if *v == 0 { vec![] } else { vec![*v] };
            let old = f.real.insert(ks[*k], val.clone());
            let want = f.rf.insert(ks[*k], val.clone());
            if old != want {
                report.violation("C20:insert-returns-wrong-old-value", format!("{old:?} vs {want:?}"), json!({"ops": trace.iter().map(|o| format!("{o:?}")).collect::<Vec<_>>()}));
            }
            f.lt.observe(&ks[*k], want.as_deref(), Some(&val));
        }
        Op::Remove(k) => {
            let f = &mut w.forks[w.active];
            let old = f.real.remove(&ks[*k]);
            let want = f.rf.remove(&ks[*k]);
            if old != want {
                report.violation("C20:remove-returns-wrong-old-value", format!("{old:?} vs {want:?}"), json!({"ops": trace.iter().map(|o| format!("{o:?}")).collect::<Vec<_>>()}));
            }
            f.lt.observe(&ks[*k], want.as_deref(), None);
        }
        Op::Fork => {
            let f = w.forks[w.active].clone();
            w.forks.push(f);
        }
        Op::Switch(i) => w.active = *i,
    }
}

/// Every bit position of the 256-bit address as the FIRST differing bit of a small key set (the
/// trie cuts addresses into 5-bit chunks that straddle byte and machine-word boundaries at
/// different depths): for each position b and three base patterns, the keys {base, base ^ bit b,
/// base ^ bit b ^ last bit, base ^ bit (b+1)} are inserted in every order and removed in every
/// rotation; after every operation the real state is compared with the ordered map (lookups,
/// length, ordered iteration, canonical form, incremental commitment).
fn bit_boundary_sweep(report: &Report) -> usize {
    let mut cases = 0;
    let flip = |k: &Address, bit: usize| -> Address {
        let mut x = *k;
        x[bit / 8] ^= 0x80 >> (bit % 8);
        x
    };
    let bases: [Address; 3] = [[0u8; 32], [0xffu8; 32], core::array::from_fn(|i| (i as u8).wrapping_mul(73).wrapping_add(5))];
    let perms: Vec<Vec<usize>> = {
        let mut out = Vec::new();
        let idx = [0usize, 1, 2, 3];
        for a in idx { for b in idx { for c in idx { for d in idx {
            let p = vec![a, b, c, d];
            let mut q = p.clone(); q.sort(); q.dedup();
            if q.len() == 4 { out.push(p); }
        }}}}
        out
    };
    for b in 0..256usize {
        for base in &bases {
            let mut ks: Vec<Address> = vec![*base, flip(base, b), flip(&flip(base, b), 255), flip(base, (b + 1).min(255))];
            ks.sort();
            ks.dedup();
            if ks.len() < 4 {
                // b = 255 collapses some of them; pad with distinct keys
                while ks.len() < 4 {
                    let extra = flip(base, ks.len() * 7);
                    if !ks.contains(&extra) { ks.push(extra); } else { ks.push(flip(&extra, 100)); }
                }
            }
            let absent: Address = flip(&flip(base, b), (b + 2).min(255).max(1) - 1);
            for (pi, p) in perms.iter().enumerate() {
                cases += 1;
                let mut w = World { forks: vec![Fork { real: State::new(), lt: LtHash::identity(), rf: BTreeMap::new() }], active: 0 };
                let mut trace: Vec<Op> = Vec::new();
                let r = catch(std::panic::AssertUnwindSafe(|| {
                    let mut ok = true;
                    for k in p {
                        let op = Op::Insert(*k, (*k as u8) + 1);
                        trace.push(op.clone());
                        apply(&mut w, &op, &ks, &trace, report);
                        ok &= check_world(&w, &ks, &absent, &trace, report);
                        if !ok { return false; }
                    }
                    for j in 0..4 {
                        let op = Op::Remove(p[(j + pi) % 4]);
                        trace.push(op.clone());
                        apply(&mut w, &op, &ks, &trace, report);
                        ok &= check_world(&w, &ks, &absent, &trace, report);
                        if !ok { return false; }
                    }
                    ok
                }));
                match r {
                    Ok(true) => {}
                    Ok(false) => return cases, // reported by check_world (first failing case is enough)
                    Err(msg) => {
                        report.violation(
                            "C20:state-panics-on-keys-sharing-a-prefix".to_string(),
                            format!("keys first differing at bit {b} (base pattern {}): {msg:.160}", bases.iter().position(|x| x == base).unwrap()),
                            json!({"oracle": "bit-boundary-sweep", "first_differing_bit": b, "insert_order": p}),
                        );
                        return cases;
                    }
                }
            }
        }
    }
    cases
}

fn explore(report: &Report, nkeys: usize, max_forks: usize, max_states: usize, label: &str) -> Value {
    let all = keys();
    let ks: Vec<Address> = all[..nkeys].to_vec();
    let absent: Address = [0x77; 32];
    let w0 = World {
        forks: vec![Fork { real: State::new(), lt: LtHash::identity(), rf: BTreeMap::new() }],
        active: 0,
    };
    let mut seen: HashSet<Key> = HashSet::new();
    seen.insert(content_key(&w0, &ks));
    let mut q: VecDeque<(World, Vec<Op>)> = VecDeque::new();
    q.push_back((w0, vec![]));
    let mut transitions = 0usize;
    let mut capped = false;
    let mut max_depth = 0;
    let mut sample: Vec<String> = Vec::new();
    while let Some((w, trace)) = q.pop_front() {
        max_depth = max_depth.max(trace.len());
        let mut ops: Vec<Op> = Vec::new();
        for k in 0..nkeys {
            ops.push(Op::Insert(k, 1));
            ops.push(Op::Insert(k, 2));
            ops.push(Op::Insert(k, 0));
            ops.push(Op::Remove(k));
        }
        if w.forks.len() < max_forks {
            ops.push(Op::Fork);
        }
        for i in 0..w.forks.len() {
            if i != w.active {
                ops.push(Op::Switch(i));
            }
        }
        for op in ops {
            transitions += 1;
            let mut w2 = w.clone();
            let mut t2 = trace.clone();
            t2.push(op.clone());
            let r = catch(std::panic::AssertUnwindSafe(|| {
                apply(&mut w2, &op, &ks, &t2, report);
                check_world(&w2, &ks, &absent, &t2, report)
            }));
            match r {
                Err(p) => {
                    report.violation("C20:state-panics", p, json!({"ops": t2.iter().map(|o| format!("{o:?}")).collect::<Vec<_>>()}));
                    continue;
                }
                Ok(false) => continue,
                Ok(true) => {}
            }
            if seen.insert(content_key(&w2, &ks)) {
                if sample.is_empty() && t2.len() == 5 {
                    sample = t2.iter().map(|o| format!("{o:?}")).collect();
                }
                if seen.len() > max_states {
                    capped = true;
                } else {
                    q.push_back((w2, t2));
                }
            }
        }
        if capped && q.is_empty() {
            break;
        }
    }
    println!("  {label}: keys={nkeys} forks<={max_forks} states={} transitions={transitions} max_depth={max_depth} capped={capped}", seen.len());
    json!({"system": label, "keys": nkeys, "max_forks": max_forks, "states": seen.len(), "transitions": transitions, "max_depth": max_depth, "capped": capped, "sample": sample})
}

// ---------------------------------------------------------------------------
// DummyExecution: reported commitment = fold(parent commitment or parent hash, transactions)

fn fold(seed: &Hash, txs: &[Vec<u8>]) -> Hash {
    let mut h = seed.clone();
    for t in txs {
        let mut b = h.as_ref().to_vec();
        b.extend_from_slice(t);
        h = alpenglow::crypto::hash(&b);
    }
    h
}

fn as_hash(b: &BlockHash) -> Hash {
    let bytes = wincode::serialize(b).unwrap();
    wincode::deserialize(&bytes).unwrap()
}

fn dummy_execution(report: &Report, tier: Tier) -> (usize, usize) {
    let txseqs: Vec<Vec<Vec<u8>>> = vec![vec![], vec![vec![b'a']], vec![vec![b'b']], vec![vec![b'a'], vec![b'b']], vec![vec![b'b'], vec![b'a']], vec![vec![b'a'], vec![b'a']]];
    let nblocks = tier.pick(3, 4);
    let mut cases = 0usize;
    let mut distinct: HashSet<Vec<u8>> = HashSet::new();
    // block i (slot i+1) has parent choice: 0 = none (genesis fallback), 1 = unknown block, 2+j = block j (< i)
    let mut parent_choices: Vec<Vec<usize>> = vec![vec![]];
    for i in 0..nblocks {
        let mut next = Vec::new();
        for pc in &parent_choices {
            for c in 0..(2 + i) {
                let mut p = pc.clone();
                p.push(c);
                next.push(p);
            }
        }
        parent_choices = next;
    }
    for pc in &parent_choices {
        // transaction sequences: vary per block through a small deterministic product
        for tsel in 0..txseqs.len().pow(nblocks.min(2) as u32) {
            for known_mask in 0..(1u32 << nblocks) {
                if tier == Tier::Quick && known_mask % 3 == 1 {
                    continue;
                }
                for split in [false, true] {
                    for sibling_interleave in [false, true] {
                        cases += 1;
                        let (tx, mut rx) = mpsc::channel(64);
                        let mut eng = DummyExecution::new(tx);
                        let ids: Vec<BlockId> = (0..nblocks).map(|i| (Slot::new(i as u64 + 1), bh(&format!("exec-{i}")))).collect();
                        let unknown: BlockId = (Slot::new(0), bh("exec-unknown"));
                        let txs_of = |i: usize| -> Vec<Vec<u8>> {
                            let sel = if i == 0 { tsel % txseqs.len() } else if i == 1 { tsel / txseqs.len() } else { (tsel + i) % txseqs.len() };
                            txseqs[sel].clone()
                        };
                        let mut expected: Vec<Hash> = Vec::new();
                        let inprog = |i: usize| if known_mask >> i & 1 == 1 { InProgressBlock::Known(ids[i].clone()) } else { InProgressBlock::Pending(ids[i].0) };
                        // schedule: blocks in slot order; with `sibling_interleave` two consecutive blocks that
                        // do not depend on each other have their execute calls interleaved
                        let mut i = 0;
                        while i < nblocks {
                            let group: Vec<usize> = if sibling_interleave && i + 1 < nblocks && pc[i + 1] != 2 + i { vec![i, i + 1] } else { vec![i] };
                            for &b in &group {
                                let parent: Option<BlockId> = match pc[b] {
                                    0 => None,
                                    1 => Some(unknown.clone()),
                                    j => Some(ids[j - 2].clone()),
                                };
                                let seed = match pc[b] {
                                    0 => as_hash(&alpenglow::crypto::merkle::GENESIS_BLOCK_HASH),
                                    1 => as_hash(&unknown.1),
                                    j => expected[j - 2].clone(),
                                };
                                expected.push(fold(&seed, &txs_of(b)));
                                eng.begin_block(inprog(b), parent);
                            }
                            let maxlen = group.iter().map(|b| txs_of(*b).len()).max().unwrap_or(0);
                            if split {
                                for t in 0..maxlen {
                                    for &b in &group {
                                        if let Some(x) = txs_of(b).get(t) {
                                            eng.execute_transactions(inprog(b), vec![Transaction(x.clone())]);
                                        }
                                    }
                                }
                            } else {
                                for &b in group.iter().rev() {
                                    eng.execute_transactions(inprog(b), txs_of(b).into_iter().map(Transaction).collect());
                                }
                            }
                            for &b in &group {
                                eng.end_block(ids[b].clone());
                            }
                            i += group.len();
                        }
                        let mut got: BTreeMap<BlockId, (usize, StateCommitment)> = BTreeMap::new();
                        while let Ok(ev) = rx.try_recv() {
                            let ExecutionEvent::BlockExecuted { block_id, result } = ev;
                            if let Ok(r) = result {
                                if got.insert(block_id.clone(), (r.tx_count, r.state_commitment)).is_some() {
                                    report.violation("C20:block-executed-reported-twice", format!("{block_id:?}"), json!({"parents": pc}));
                                }
                            }
                        }
                        for b in 0..nblocks {
                            let want: StateCommitment = expected[b].clone().into();
                            let mut fp = wincode::serialize(&want).unwrap();
                            fp.push(b as u8);
                            distinct.insert(fp);
                            match got.get(&ids[b]) {
                                Some((n, c)) if *n == txs_of(b).len() && *c == want => {}
                                other => report.violation(
                                    "C20:engine-commitment-not-fold-of-parent-and-transactions",
                                    format!("block {b} (parent choice {}, known id {}, split {split}, interleaved {sibling_interleave}): reported {:?}", pc[b], known_mask >> b & 1, other.map(|o| o.0)),
                                    json!({"parents": pc, "tsel": tsel, "known_mask": known_mask, "split": split, "interleave": sibling_interleave}),
                                ),
                            }
                        }
                    }
                }
            }
        }
    }
    (cases, distinct.len())
}

/// Finalization prunes every block below the finalized slot, however it is tracked (by slot only or
/// by its full id): a child begun afterwards on a pruned parent is seeded from the parent's block
/// hash, on a retained parent from its computed commitment, and a pruned block reports nothing.
fn finalize_sweep(report: &Report) -> usize {
    let mut cases = 0;
    let txs: [Vec<Vec<u8>>; 3] = [vec![vec![b'a']], vec![vec![b'b']], vec![vec![b'a'], vec![b'b']]];
    for known_mask in 0..8u32 {
        for f in 1..=4u64 {
            for p in 0..3usize {
                for child_known in [false, true] {
                    cases += 1;
                    let (tx, mut rx) = mpsc::channel(64);
                    let mut eng = DummyExecution::new(tx);
                    let ids: Vec<BlockId> = (0..3).map(|i| (Slot::new(i as u64 + 1), bh(&format!("fin-{i}")))).collect();
                    let inprog = |i: usize| if known_mask >> i & 1 == 1 { InProgressBlock::Known(ids[i].clone()) } else { InProgressBlock::Pending(ids[i].0) };
                    let mut expected: Vec<Hash> = Vec::new();
                    for i in 0..3 {
                        let parent = if i == 0 { None } else { Some(ids[i - 1].clone()) };
                        let seed = if i == 0 { as_hash(&alpenglow::crypto::merkle::GENESIS_BLOCK_HASH) } else { expected[i - 1].clone() };
                        expected.push(fold(&seed, &txs[i]));
                        eng.begin_block(inprog(i), parent);
                        eng.execute_transactions(inprog(i), txs[i].iter().cloned().map(Transaction).collect());
                        eng.end_block(ids[i].clone());
                    }
                    while rx.try_recv().is_ok() {}
                    let fin_id: BlockId = if f <= 3 { ids[f as usize - 1].clone() } else { (Slot::new(4), bh("fin-3")) };
                    eng.finalize(fin_id);
                    let replay = json!({"oracle": "finalize-sweep", "tracked_by_full_id_mask": known_mask, "finalized_slot": f, "child_parent": p, "child_tracked_by_full_id": child_known});
                    // pruned blocks are gone
                    for i in 0..3 {
                        eng.end_block(ids[i].clone());
                        let reported = rx.try_recv().is_ok();
                        let pruned = (i as u64 + 1) < f;
                        if pruned && reported {
                            report.violation(
                                "C20:pruned-block-still-reports".to_string(),
                                format!("block of slot {} (tracked by {}) still reports a result after slot {f} was finalized", i + 1, if known_mask >> i & 1 == 1 { "full id" } else { "slot" }),
                                replay.clone(),
                            );
                        }
                        if !pruned && !reported {
                            report.violation("C20:retained-block-lost-by-finalization".to_string(), format!("block of slot {} no longer reports after slot {f} was finalized", i + 1), replay.clone());
                        }
                    }
                    // a child begun now
                    let child: BlockId = (Slot::new(5), bh("fin-child"));
                    let cin = if child_known { InProgressBlock::Known(child.clone()) } else { InProgressBlock::Pending(child.0) };
                    eng.begin_block(cin.clone(), Some(ids[p].clone()));
                    eng.execute_transactions(cin, vec![Transaction(vec![b'c'])]);
                    eng.end_block(child.clone());
                    let seed = if (p as u64 + 1) < f { as_hash(&ids[p].1) } else { expected[p].clone() };
                    let want: StateCommitment = fold(&seed, &[vec![b'c']]).into();
                    match rx.try_recv() {
                        Ok(ExecutionEvent::BlockExecuted { result: Ok(r), .. }) if r.state_commitment == want && r.tx_count == 1 => {}
                        other => report.violation(
                            "C20:child-of-pruned-parent-not-seeded-from-block-hash".to_string(),
                            format!("child of the block of slot {} begun after slot {f} was finalized: expected the fold over {} , engine reported {:?}", p + 1, if (p as u64 + 1) < f { "the parent's block hash (parent pruned)" } else { "the parent's computed commitment" }, other.map(|_| "another commitment").ok()),
                            replay,
                        ),
                    }
                }
            }
        }
    }
    // the child is begun while its parent is still tracked, finalization prunes the parent, and only
    // then the child executes: its seed was fixed when it began
    for known_mask in 0..8u32 {
        for f in 2..=4u64 {
            for p in 0..3usize {
                for child_txs in [0usize, 1] {
                    cases += 1;
                    let (tx, mut rx) = mpsc::channel(64);
                    let mut eng = DummyExecution::new(tx);
                    let ids: Vec<BlockId> = (0..3).map(|i| (Slot::new(i as u64 + 1), bh(&format!("fin-{i}")))).collect();
                    let inprog = |i: usize| if known_mask >> i & 1 == 1 { InProgressBlock::Known(ids[i].clone()) } else { InProgressBlock::Pending(ids[i].0) };
                    let mut expected: Vec<Hash> = Vec::new();
                    for i in 0..3 {
                        let parent = if i == 0 { None } else { Some(ids[i - 1].clone()) };
                        let seed = if i == 0 { as_hash(&alpenglow::crypto::merkle::GENESIS_BLOCK_HASH) } else { expected[i - 1].clone() };
                        expected.push(fold(&seed, &txs[i]));
                        eng.begin_block(inprog(i), parent);
                        eng.execute_transactions(inprog(i), txs[i].iter().cloned().map(Transaction).collect());
                        eng.end_block(ids[i].clone());
                    }
                    while rx.try_recv().is_ok() {}
                    let child: BlockId = (Slot::new(5), bh("fin-child-early"));
                    let cin = InProgressBlock::Pending(child.0);
                    eng.begin_block(cin.clone(), Some(ids[p].clone()));
                    let fin_id: BlockId = if f <= 3 { ids[f as usize - 1].clone() } else { (Slot::new(4), bh("fin-3")) };
                    eng.finalize(fin_id);
                    let ctx: Vec<Vec<u8>> = (0..child_txs).map(|_| vec![b'c']).collect();
                    if child_txs > 0 {
                        eng.execute_transactions(cin, ctx.iter().cloned().map(Transaction).collect());
                    }
                    eng.end_block(child.clone());
                    let want: StateCommitment = fold(&expected[p], &ctx).into();
                    let ok = matches!(rx.try_recv(), Ok(ExecutionEvent::BlockExecuted { result: Ok(r), .. }) if r.state_commitment == want && r.tx_count == child_txs);
                    if !ok {
                        report.violation(
                            "C20:commitment-depends-on-when-finalization-happens".to_string(),
                            format!("a child begun on the tracked block of slot {} ({} transactions), slot {f} finalized before the child executed: the reported commitment is not the fold of the parent's commitment over the child's transactions", p + 1, child_txs),
                            json!({"oracle": "finalize-sweep", "tracked_by_full_id_mask": known_mask, "finalized_slot": f, "child_parent": p, "finalize_between_begin_and_execute": true}),
                        );
                    }
                }
            }
        }
    }
    cases
}

/// A key is begun a second time (another block of the slot streamed in under the slot-only key
/// after an equivocation; a repair restarted from the first slice): the second execution starts
/// afresh - its reported commitment is the fold of ITS parent seed over ITS transactions only.
fn rebegin_sweep(report: &Report) -> usize {
    let mut cases = 0;
    let seqs: [Vec<Vec<u8>>; 3] = [vec![], vec![vec![b'a']], vec![vec![b'a'], vec![b'b']]];
    for known in [false, true] {
        for parent_kind in 0..3usize {
            for first in &seqs {
                for second in &seqs {
                    for end_first in [false, true] {
                        for other_parent_second in [false, true] {
                            cases += 1;
                            let (tx, mut rx) = mpsc::channel(64);
                            let mut eng = DummyExecution::new(tx);
                            let pid: BlockId = (Slot::new(4), bh("rebegin-parent"));
                            let pid2: BlockId = (Slot::new(3), bh("rebegin-parent-2"));
                            let id: BlockId = (Slot::new(5), bh("rebegin-block"));
                            let key = || if known { InProgressBlock::Known(id.clone()) } else { InProgressBlock::Pending(id.0) };
                            // parent: none / unknown / executed here
                            let mut parent_commit: Option<Hash> = None;
                            if parent_kind == 2 {
                                eng.begin_block(InProgressBlock::Pending(pid.0), None);
                                eng.execute_transactions(InProgressBlock::Pending(pid.0), vec![Transaction(vec![b'p'])]);
                                eng.end_block(pid.clone());
                                parent_commit = Some(fold(&as_hash(&alpenglow::crypto::merkle::GENESIS_BLOCK_HASH), &[vec![b'p']]));
                                while rx.try_recv().is_ok() {}
                            }
                            let parent = match parent_kind { 0 => None, _ => Some(pid.clone()) };
                            let seed_of = |p: &Option<BlockId>| match p {
                                None => as_hash(&alpenglow::crypto::merkle::GENESIS_BLOCK_HASH),
                                Some(b) if *b == pid && parent_commit.is_some() => parent_commit.clone().unwrap(),
                                Some(b) => as_hash(&b.1),
                            };
                            eng.begin_block(key(), parent.clone());
                            eng.execute_transactions(key(), first.iter().cloned().map(Transaction).collect());
                            if end_first {
                                eng.end_block(id.clone());
                                while rx.try_recv().is_ok() {}
                            }
                            let parent2 = if other_parent_second { Some(pid2.clone()) } else { parent.clone() };
                            eng.begin_block(key(), parent2.clone());
                            eng.execute_transactions(key(), second.iter().cloned().map(Transaction).collect());
                            eng.end_block(id.clone());
                            let want: StateCommitment = fold(&seed_of(&parent2), second).into();
                            let ok = matches!(rx.try_recv(), Ok(ExecutionEvent::BlockExecuted { result: Ok(r), .. }) if r.state_commitment == want && r.tx_count == second.len());
                            if !ok {
                                report.violation(
                                    "C20:second-execution-under-one-key-not-fresh".to_string(),
                                    format!("a block begun again under the same {} key (first attempt: {} transactions{}, second: {}, {} parent): the reported result is not the fold of the second attempt's seed over its own transactions", if known { "full-id" } else { "slot-only" }, first.len(), if end_first { ", ended" } else { "" }, second.len(), if other_parent_second { "another" } else { "the same" }),
                                    json!({"oracle": "rebegin-sweep", "tracked_by_full_id": known, "parent_kind": parent_kind, "first": first.len(), "second": second.len(), "first_ended": end_first, "other_parent": other_parent_second}),
                                );
                            }
                        }
                    }
                }
            }
        }
    }
    cases
}

/// Two versions of one slot in flight at once (one streamed in by dissemination and tracked by slot
/// only, one repaired and tracked by its full id): each reports its own fold, and a child is seeded
/// from the version it names as parent.
fn same_slot_versions(report: &Report) -> usize {
    let txseqs: Vec<Vec<Vec<u8>>> = vec![vec![], vec![vec![b'a']], vec![vec![b'b']], vec![vec![b'a'], vec![b'b']], vec![vec![b'b'], vec![b'a']]];
    let genesis = as_hash(&alpenglow::crypto::merkle::GENESIS_BLOCK_HASH);
    let slot = Slot::new(5);
    let id_p: BlockId = (slot, bh("exec-version-streamed"));
    let id_k: BlockId = (slot, bh("exec-version-repaired"));
    let id_c: BlockId = (Slot::new(6), bh("exec-child"));
    let mut cases = 0;
    for tp in &txseqs {
        for tk in &txseqs {
            for pending_first in [true, false] {
                for split in [false, true] {
                    for child_on_known in [true, false] {
                        for end_known_first in [true, false] {
                            cases += 1;
                            let (tx, mut rx) = mpsc::channel(64);
                            let mut eng = DummyExecution::new(tx);
                            let p = InProgressBlock::Pending(slot);
                            let k = InProgressBlock::Known(id_k.clone());
                            if pending_first {
                                eng.begin_block(p.clone(), None);
                                eng.begin_block(k.clone(), None);
                            } else {
                                eng.begin_block(k.clone(), None);
                                eng.begin_block(p.clone(), None);
                            }
                            if split {
                                for t in 0..tp.len().max(tk.len()) {
                                    if let Some(x) = tp.get(t) {
                                        eng.execute_transactions(p.clone(), vec![Transaction(x.clone())]);
                                    }
                                    if let Some(x) = tk.get(t) {
                                        eng.execute_transactions(k.clone(), vec![Transaction(x.clone())]);
                                    }
                                }
                            } else {
                                eng.execute_transactions(k.clone(), tk.iter().cloned().map(Transaction).collect());
                                eng.execute_transactions(p.clone(), tp.iter().cloned().map(Transaction).collect());
                            }
                            let want_p = fold(&genesis, tp);
                            let want_k = fold(&genesis, tk);
                            let parent = if child_on_known { id_k.clone() } else { id_p.clone() };
                            let want_c = fold(if child_on_known { &want_k } else { &want_p }, &[vec![b'c']]);
                            eng.begin_block(InProgressBlock::Pending(Slot::new(6)), Some(parent));
                            eng.execute_transactions(InProgressBlock::Pending(Slot::new(6)), vec![Transaction(vec![b'c'])]);
                            if end_known_first {
                                eng.end_block(id_k.clone());
                                eng.end_block(id_p.clone());
                            } else {
                                eng.end_block(id_p.clone());
                                eng.end_block(id_k.clone());
                            }
                            eng.end_block(id_c.clone());
                            let mut got: BTreeMap<BlockId, (usize, StateCommitment)> = BTreeMap::new();
                            while let Ok(ev) = rx.try_recv() {
                                let ExecutionEvent::BlockExecuted { block_id, result } = ev;
                                if let Ok(r) = result {
                                    got.insert(block_id, (r.tx_count, r.state_commitment));
                                }
                            }
                            let replay = json!({"streamed_txs": tp, "repaired_txs": tk, "pending_first": pending_first, "split": split, "child_on_repaired": child_on_known, "end_repaired_first": end_known_first});
                            for (name, id, want, n) in [("repaired (full id)", &id_k, &want_k, tk.len()), ("streamed (slot only)", &id_p, &want_p, tp.len()), ("child", &id_c, &want_c, 1)] {
                                let w: StateCommitment = want.clone().into();
                                match got.get(id) {
                                    Some((cnt, c)) if *cnt == n && *c == w => {}
                                    other => report.violation(
                                        "C20:engine-commitment-not-fold-of-parent-and-transactions:two-versions-of-one-slot",
                                        format!("{name} version: reported {:?} transactions / a commitment that is not the fold of its parent's commitment and its own {n} transactions", other.map(|o| o.0)),
                                        replay.clone(),
                                    ),
                                }
                            }
                        }
                    }
                }
            }
        }
    }
    cases
}

pub fn run(tier: Tier) -> i32 {
    let report = Report::new("C20", tier, "model_checking");
    let mut fams = Vec::new();
    fams.push(explore(&report, tier.pick(6, 8), 1, 30_000_000, "single-fork-clustered-keys"));
    fams.push(explore(&report, tier.pick(3, 4), 2, 3_000_000, "two-forks"));
    fams.push(explore(&report, tier.pick(2, 3), 3, tier.pick(400_000, 3_000_000), "three-forks"));
    let states: usize = fams.iter().map(|f| f["states"].as_u64().unwrap() as usize).sum();
    let transitions: usize = fams.iter().map(|f| f["transitions"].as_u64().unwrap() as usize).sum();
    let capped = fams.iter().any(|f| f["capped"].as_bool().unwrap());
    let (cases, distinct) = dummy_execution(&report, tier);
    let versions = same_slot_versions(&report);
    let fin_cases = finalize_sweep(&report);
    let rebegin_cases = rebegin_sweep(&report);
    let cases = cases + rebegin_cases;
    let boundary_cases = bit_boundary_sweep(&report);
    println!("  bit-boundary sweep: {boundary_cases} insert/remove sequences");
    let cases = cases + versions + fin_cases;
    println!("  dummy-execution: cases={cases} (two-versions-of-one-slot {versions}, finalization {fin_cases}) distinct commitments={distinct}");
    let cov = json!({
        "states": states,
        "transitions": transitions,
        "traces_validated_against_impl": transitions,
        "exhaustive": !capped,
        "bound": "all sequences of insert (2 values) / remove / fork / switch over adversarially clustered keys (sharing 0,1,2,10,25,51 trie levels, and keys differing only in the low bits of a byte that straddles a level boundary), closed under the content tuple of the forks (merging justified by the canonicity assertion checked in every state)",
        "families": fams,
        "dummy_execution_cases": cases,
        "bit_boundary_sequences": boundary_cases,
        "bit_boundary_rule": "for every bit position b of the address (0..=255) and three base patterns: keys {base, base^bit b, base^bit b^last bit, base^bit b+1} inserted in all 24 orders and removed in 4 rotations, the full state oracle after every operation",
        "dummy_execution_distinct_commitments": distinct,
        "samples": [fams[0]["sample"].clone(), {"dummy_execution": "all block trees of up to 3 (thorough 4) blocks with parent in {none, unknown, any earlier block}, transaction sequences over {a,b} of length <= 2, Known/Pending ids, transactions in one call or one per call, sibling executions interleaved; plus two versions of one slot in flight at once (slot-only and full-id tracking, both begin/end orders, child on either); plus finalization: a chain of three blocks, each tracked by slot or by full id (all 8 combinations), finalized slot 1..4, then every block asked to report again (pruned ones must be silent) and a child begun on each of the three (seeded from the block hash of a pruned parent, from the computed commitment of a retained one); plus a key begun twice (slot-only / full-id, parent none / unknown / executed, first attempt ended or not, same or other parent the second time, 0-2 transactions each): the second execution reports the fold of its own seed over its own transactions"}],
    });
    report.finish(cov)
}
