//! E2 system for C07 / C08 / C18: one real `PoolImpl` fed a safety-consistent
//! multi-slot scenario (certificates, votes, block-parent links, waiters) in
//! every order, against the reference models A.4 (parent-ready), A.5
//! (finality / pruning) and the standstill-bundle oracle.

use std::collections::{BTreeMap, BTreeSet, HashMap};
use std::hash::{Hash, Hasher};
use std::sync::{Arc, Mutex};

use alpenglow::consensus::{Cert, Pool, PoolEvent, ValidatedCert, ValidatedVote, Vote};
use alpenglow::types::{SLOTS_PER_WINDOW, Slot};
use alpenglow::BlockId;
use either::Either;
use tokio::sync::oneshot;

use crate::common::{Epoch, catch, new_hasher};
use crate::engine::{StepOutcome, Sys};
use crate::pooldrv::*;

pub const MAX_IDX: u8 = 2;

/// Reference state: everything accepted so far.
#[derive(Clone, Debug, Default)]
pub struct RefChain {
    pub certs: BTreeSet<(u64, CK, u8)>,
    pub links: BTreeMap<Blk, Blk>,
    pub own_votes: BTreeSet<VoteSpec>,
    pub watermark: u64,
}

impl RefChain {
    fn has(&self, slot: u64, k: CK, b: u8) -> bool {
        self.certs.contains(&(slot, k, b))
    }
    fn notar_block(&self, slot: u64) -> Option<u8> {
        self.certs
            .iter()
            .find(|(s, k, _)| *s == slot && *k == CK::Notar)
            .map(|c| c.2)
    }
    fn ff_block(&self, slot: u64) -> Option<u8> {
        self.certs
            .iter()
            .find(|(s, k, _)| *s == slot && *k == CK::FastFinal)
            .map(|c| c.2)
    }
    pub fn direct(&self) -> BTreeSet<Blk> {
        let mut out = BTreeSet::new();
        let slots: BTreeSet<u64> = self.certs.iter().map(|c| c.0).collect();
        for s in slots {
            if let Some(b) = self.ff_block(s) {
                out.insert(Blk { slot: s, idx: b });
            } else if self.has(s, CK::Final, 0)
                && let Some(b) = self.notar_block(s)
            {
                out.insert(Blk { slot: s, idx: b });
            }
        }
        out
    }
    /// (Fin, ImplSkip): closure of the directly finalized blocks under known parent links.
    pub fn fin(&self) -> (BTreeSet<Blk>, BTreeSet<u64>) {
        let mut fin = self.direct();
        let mut skipped = BTreeSet::new();
        let mut work: Vec<Blk> = fin.iter().copied().collect();
        while let Some(b) = work.pop() {
            if let Some(p) = self.links.get(&b) {
                for t in p.slot + 1..b.slot {
                    skipped.insert(t);
                }
                if fin.insert(*p) {
                    work.push(*p);
                }
            }
        }
        (fin, skipped)
    }
    pub fn finalized_slot(&self) -> u64 {
        self.direct().iter().map(|b| b.slot).max().unwrap_or(0)
    }
    pub fn compute_watermark(&self) -> u64 {
        let (fin, skipped) = self.fin();
        let decided: BTreeSet<u64> = fin.iter().map(|b| b.slot).chain(skipped.iter().copied()).collect();
        let mut w = 0;
        while decided.contains(&(w + 1)) {
            w += 1;
        }
        w.max(self.watermark)
    }
    /// A.4: ready parents for window start `s`.
    pub fn parents_ready(&self, s: u64) -> BTreeSet<Blk> {
        let (fin, implskip) = self.fin();
        let mut out = BTreeSet::new();
        let skipped = |t: u64| self.has(t, CK::Skip, 0) || implskip.contains(&t);
        let mut cands: BTreeSet<Blk> = fin.clone();
        cands.insert(GENESIS);
        for (slot, k, b) in &self.certs {
            if matches!(k, CK::Notar | CK::NotarFb | CK::FastFinal) {
                cands.insert(Blk { slot: *slot, idx: *b });
            }
        }
        for b in cands {
            if b.slot < s && (b.slot + 1..s).all(skipped) {
                out.insert(b);
            }
        }
        out
    }
    pub fn cert_dup(&self, c: &CertSpec) -> bool {
        match c.kind {
            CK::Notar => self.notar_block(c.slot).is_some(),
            CK::FastFinal => self.ff_block(c.slot).is_some(),
            CK::NotarFb => self.has(c.slot, CK::NotarFb, c.blk),
            CK::Skip => self.has(c.slot, CK::Skip, 0),
            CK::Final => self.has(c.slot, CK::Final, 0),
        }
    }
}

pub struct ChainSys {
    pub name: String,
    pub epoch: Arc<Epoch>,
    pub own: usize,
    pub ops: Vec<Op>,
    pub factory: Factory,
    pub focus: &'static str,
    pub max_slot: u64,
    lookup: HashMap<BlockId, Blk>,
    vcache: Mutex<HashMap<Vec<u8>, Option<ValidatedCert>>>,
    vvcache: Mutex<HashMap<Vec<u8>, Option<ValidatedVote>>>,
    /// Probe the standstill bundle in every state (C18).
    pub probe_standstill: bool,
}

pub struct ChainWorld {
    pub pool: PoolH,
    pub rf: RefChain,
    /// reference for vote-built certificates (thresholds)
    pub rp: RefPool,
    pub delivered: Vec<bool>,
    pub announced: BTreeMap<(u64, Blk), u32>,
    pub rep_fin: BTreeMap<Blk, u32>,
    pub rep_direct: BTreeMap<Blk, u32>,
    pub rep_skip: BTreeMap<u64, u32>,
    pub waiters: BTreeMap<u64, oneshot::Receiver<BlockId>>,
    pub abandoned: BTreeSet<u64>,
    pub woken: BTreeMap<u64, Blk>,
    pub max_finalized_seen: u64,
}

impl ChainSys {
    pub fn new(name: &str, epoch: Arc<Epoch>, own: usize, ops: Vec<Op>, focus: &'static str) -> Self {
        let mut factory = Factory::new(epoch.clone());
        factory.prepare(&ops);
        let max_slot = ops
            .iter()
            .map(|o| match o {
                Op::Vote(v) => v.slot,
                Op::Cert(c) => c.slot,
                Op::Block { blk, .. } => blk.slot,
                Op::Wait(s) | Op::WaitAbandoned(s) => *s,
                _ => 0,
            })
            .max()
            .unwrap_or(0);
        let mut lookup = HashMap::new();
        for s in 0..=max_slot + 1 {
            for i in 0..=(if s == 0 { 0 } else { MAX_IDX }) {
                lookup.insert(blk_id(Blk { slot: s, idx: i }), Blk { slot: s, idx: i });
            }
        }
        Self {
            name: name.to_string(),
            epoch,
            own,
            ops,
            factory,
            focus,
            max_slot,
            lookup,
            vcache: Mutex::new(HashMap::new()),
            vvcache: Mutex::new(HashMap::new()),
            probe_standstill: focus == "C18",
        }
    }

    fn blk_of(&self, id: &BlockId) -> Blk {
        self.lookup.get(id).copied().unwrap_or(Blk { slot: id.0.inner(), idx: 255 })
    }

    fn window_starts(&self) -> Vec<u64> {
        (1..=self.max_slot / SLOTS_PER_WINDOW + 1).map(|w| w * SLOTS_PER_WINDOW).collect()
    }

    fn validated(&self, c: &Cert) -> Option<ValidatedCert> {
        let bytes = wincode::serialize(c).expect("ser");
        if let Some(v) = self.vcache.lock().unwrap().get(&bytes) {
            return v.clone();
        }
        let v = ValidatedCert::try_new(c.clone(), &self.epoch.info).ok();
        self.vcache.lock().unwrap().insert(bytes, v.clone());
        v
    }

    fn validated_vote(&self, v: &Vote) -> Option<ValidatedVote> {
        let bytes = wincode::serialize(v).expect("ser");
        if let Some(x) = self.vvcache.lock().unwrap().get(&bytes) {
            return x.clone();
        }
        let x = ValidatedVote::try_new(v.clone(), &self.epoch.info).ok();
        self.vvcache.lock().unwrap().insert(bytes, x.clone());
        x
    }

    /// C18 oracle: trigger recovery in this state and examine the bundle.
    fn check_standstill(&self, w: &mut ChainWorld, out: &mut StepOutcome) {
        let before = w.pool.digest();
        let fin_slot = w.pool.pool.finalized_slot().inner();
        let r = catch(std::panic::AssertUnwindSafe(|| w.pool.standstill()));
        let o = match r {
            Err(msg) => {
                let class = if fin_slot == 0 { "nothing-finalized-yet" } else { "after-finalization" };
                out.push(
                    format!("C18:recovery-panics:{class}"),
                    format!("recover_from_standstill panicked with finalized slot {fin_slot}: {msg}"),
                );
                return;
            }
            Ok(o) => o,
        };
        if w.pool.digest() != before {
            out.push("C18:recovery-changed-state".to_string(), "pool digest changed by recover_from_standstill".to_string());
        }
        let bundles: Vec<_> = o
            .events
            .iter()
            .filter_map(|e| match e {
                PoolEvent::Standstill(s, c, v) => Some((*s, c.clone(), v.clone())),
                _ => None,
            })
            .collect();
        if bundles.len() != 1 {
            out.push(
                "C18:no-single-bundle".to_string(),
                format!("recover_from_standstill emitted {} Standstill events", bundles.len()),
            );
            return;
        }
        let (_slot, certs, votes) = &bundles[0];
        // every element validates at a receiver
        let mut vcerts = Vec::new();
        for c in certs {
            match self.validated(c) {
                Some(v) => vcerts.push(v),
                None => out.push(
                    format!("C18:bundle-cert-invalid:{:?}", cert_kind(c)),
                    format!("bundle contains a {:?} cert for slot {} that fails ValidatedCert::try_new", cert_kind(c), c.slot()),
                ),
            }
        }
        let mut vvotes = Vec::new();
        for v in votes {
            match self.validated_vote(v) {
                Some(x) => vvotes.push(x),
                None => out.push("C18:bundle-vote-invalid".to_string(), format!("bundle vote {v:?} fails validation")),
            }
        }
        // contents: proof of finalized slot, all later certs, all own later votes
        let have: BTreeSet<(u64, CK, u8)> = certs
            .iter()
            .map(|c| {
                let b = c.block_hash().map(|h| self.blk_of(&(c.slot(), h.clone())).idx).unwrap_or(0);
                (c.slot().inner(), cert_kind(c), b)
            })
            .collect();
        if fin_slot > 0 {
            let proves = have.iter().any(|(s, k, _)| *s == fin_slot && *k == CK::FastFinal)
                || (have.iter().any(|(s, k, _)| *s == fin_slot && *k == CK::Final)
                    && have.iter().any(|(s, k, _)| *s == fin_slot && *k == CK::Notar));
            if !proves {
                out.push(
                    "C18:bundle-lacks-finality-proof".to_string(),
                    format!("bundle does not prove finalized slot {fin_slot}: certs {have:?}"),
                );
            }
        }
        for c in w.rf.certs.iter().filter(|c| c.0 > fin_slot) {
            if !have.contains(c) {
                out.push(
                    format!("C18:bundle-misses-later-cert:{:?}", c.1),
                    format!("pool holds {:?} for slot {} (> finalized {fin_slot}) but the bundle lacks it", c.1, c.0),
                );
            }
        }
        let own_have: BTreeSet<(u64, String, Option<u8>)> = votes
            .iter()
            .map(|v| {
                let b = v.block_hash().map(|h| self.blk_of(&(v.slot(), h.clone())).idx);
                (v.slot().inner(), vote_kind_name(v), b)
            })
            .collect();
        for v in votes {
            if v.signer().inner() as usize != self.own {
                out.push("C18:bundle-foreign-vote".to_string(), format!("bundle contains a vote of validator {}", v.signer()));
            }
        }
        for v in w.rf.own_votes.iter().filter(|v| v.slot > fin_slot) {
            let key = (v.slot, format!("{:?}", v.kind), if v.has_block() { Some(v.blk) } else { None });
            if !own_have.contains(&key) {
                out.push(
                    format!("C18:bundle-misses-own-vote:{:?}", v.kind),
                    format!("own accepted vote {} (> finalized {fin_slot}) missing from bundle", v.show()),
                );
            }
        }
        // a fresh pool fed only the bundle catches up
        let r = catch(std::panic::AssertUnwindSafe(|| {
            let mut fresh = PoolH::new(&self.epoch, self.own);
            for c in &vcerts {
                let _ = fresh.add_cert(c.clone());
            }
            for v in &vvotes {
                let _ = fresh.add_vote(v.clone());
            }
            let f = fresh.pool.finalized_slot().inner();
            let next_window = (fin_slot / SLOTS_PER_WINDOW + 1) * SLOTS_PER_WINDOW;
            let pr: BTreeSet<BlockId> = fresh.pool.parents_ready(Slot::new(next_window)).iter().cloned().collect();
            (f, next_window, pr)
        }));
        match r {
            Err(msg) => out.push("C18:fresh-pool-panics-on-bundle".to_string(), msg),
            Ok((f, next_window, pr)) => {
                if f != fin_slot {
                    out.push(
                        "C18:fresh-pool-finalized-slot-differs".to_string(),
                        format!("fresh pool fed the bundle reaches finalized slot {f}, sender has {fin_slot}"),
                    );
                }
                let orig: BTreeSet<BlockId> = w.pool.pool.parents_ready(Slot::new(next_window)).iter().cloned().collect();
                if pr != orig {
                    out.push(
                        "C18:fresh-pool-ready-parents-differ".to_string(),
                        format!(
                            "ready parents for slot {next_window}: sender {:?}, fresh pool fed the bundle {:?}",
                            orig.iter().map(|b| self.blk_of(b)).collect::<Vec<_>>(),
                            pr.iter().map(|b| self.blk_of(b)).collect::<Vec<_>>()
                        ),
                    );
                }
            }
        }
    }
}

pub fn vote_kind_name(v: &Vote) -> String {
    match v {
        Vote::Notar(_) => "Notar",
        Vote::NotarFallback(_) => "NotarFb",
        Vote::Skip(_) => "Skip",
        Vote::SkipFallback(_) => "SkipFb",
        Vote::Final(_) => "Final",
    }
    .to_string()
}

impl Sys for ChainSys {
    type World = ChainWorld;

    fn init(&self) -> ChainWorld {
        ChainWorld {
            pool: PoolH::new(&self.epoch, self.own),
            rf: RefChain::default(),
            rp: RefPool::new(&self.epoch.stakes, self.own),
            delivered: vec![false; self.ops.len()],
            announced: BTreeMap::new(),
            rep_fin: BTreeMap::new(),
            rep_direct: BTreeMap::new(),
            rep_skip: BTreeMap::new(),
            waiters: BTreeMap::new(),
            abandoned: BTreeSet::new(),
            woken: BTreeMap::new(),
            max_finalized_seen: 0,
        }
    }

    fn num_actions(&self) -> usize {
        self.ops.len()
    }

    fn enabled(&self, w: &ChainWorld, _hist: &[u16], action: u16) -> bool {
        if w.delivered[action as usize] {
            return false;
        }
        match &self.ops[action as usize] {
            // registering a second waiter for a not-ready slot is a caller error
            Op::Wait(s) => !w.waiters.contains_key(s) && !w.abandoned.contains(s),
            // only while nothing is ready and no live waiter exists (a second registration is a caller error)
            Op::WaitAbandoned(s) => !w.waiters.contains_key(s) && !w.abandoned.contains(s) && w.rf.parents_ready(*s).is_empty(),
            _ => true,
        }
    }

    fn step(&self, w: &mut ChainWorld, action: u16, check: bool) -> StepOutcome {
        let mut out = StepOutcome::ok();
        let op = &self.ops[action as usize];
        w.delivered[action as usize] = true;
        let wm_before = w.rf.watermark;
        let ready_before: BTreeMap<u64, BTreeSet<Blk>> =
            self.window_starts().into_iter().map(|s| (s, w.rf.parents_ready(s))).collect();
        let digest_before = if check { w.pool.digest() } else { 0 };
        let mut refused = false;
        let o = match op {
            Op::Cert(c) => {
                let (r, o) = w.pool.add_cert(self.factory.cert(c));
                let expect = if c.slot < wm_before {
                    Err("SlotOutOfBounds".to_string())
                } else if w.rf.cert_dup(c) {
                    Err("Duplicate".to_string())
                } else {
                    Ok(())
                };
                if expect.is_ok() {
                    w.rf.certs.insert((c.slot, c.kind, if c.has_block() { c.blk } else { 0 }));
                    w.rp.accept_cert(c);
                } else {
                    refused = true;
                }
                if check && r != expect {
                    out.push(
                        format!("C08:cert-admission:{}", expect.clone().err().unwrap_or("Ok".into())),
                        format!("{}: pool said {r:?}, reference (watermark {wm_before}) expects {expect:?}", c.show()),
                    );
                }
                o
            }
            Op::Vote(v) => {
                let (r, o) = w.pool.add_vote(self.factory.vote(v));
                let (name, _) = verdict_of(&r);
                let expect_oob = v.slot < wm_before;
                if expect_oob {
                    refused = true;
                    if check && name != "SlotOutOfBounds" {
                        out.push(
                            "C08:vote-accepted-below-watermark".to_string(),
                            format!("{}: pool said {name}, watermark is {wm_before}", v.show()),
                        );
                    }
                } else {
                    if check && name == "SlotOutOfBounds" {
                        out.push(
                            "C08:vote-refused-for-undecided-slot".to_string(),
                            format!("{}: SlotOutOfBounds although watermark is {wm_before}", v.show()),
                        );
                    }
                    if name == "Ok" {
                        for (k, b) in w.rp.accept_vote(v) {
                            // votes can only re-create certificates not already held
                            if !w.rf.cert_dup(&CertSpec { kind: k, slot: v.slot, blk: b, s1: 0, s2: 0 }) {
                                w.rf.certs.insert((v.slot, k, b));
                            }
                        }
                        if v.signer == self.own {
                            w.rf.own_votes.insert(*v);
                        }
                    } else {
                        refused = true;
                    }
                }
                o
            }
            Op::Block { blk, parent } => {
                let o = w.pool.add_block(blk_id(*blk), blk_id(*parent));
                // links for slots below the watermark are irrelevant (already decided)
                if blk.slot >= wm_before {
                    w.rf.links.entry(*blk).or_insert(*parent);
                }
                o
            }
            Op::WaitAbandoned(s) => {
                // nothing observable may depend on a waiter nobody listens to any more
                w.abandoned.insert(*s);
                drop(w.pool.pool.wait_for_parent_ready(Slot::new(*s)));
                Out::default()
            }
            Op::Wait(s) => {
                let r = w.pool.pool.wait_for_parent_ready(Slot::new(*s));
                let expect = w.rf.parents_ready(*s);
                match r {
                    Either::Left(b) => {
                        let b = self.blk_of(&b);
                        if check && !expect.contains(&b) {
                            out.push(
                                "C07:waiter-given-unready-parent".to_string(),
                                format!("wait_for_parent_ready({s}) returned {b:?}, reference ready set {expect:?}"),
                            );
                        }
                        if check && expect.iter().next() != Some(&b) {
                            // documented: minimal slot first; informational only
                        }
                    }
                    Either::Right(rx) => {
                        if check && !expect.is_empty() && *s >= wm_before {
                            out.push(
                                "C07:waiter-not-served-although-ready".to_string(),
                                format!("wait_for_parent_ready({s}) pends although {expect:?} are ready"),
                            );
                        }
                        w.waiters.insert(*s, rx);
                    }
                }
                Out::default()
            }
            Op::Standstill => w.pool.standstill(),
        };
        let _ = refused;
        w.rf.watermark = w.rf.compute_watermark();
        w.rp.pruned_below = w.rf.watermark;

        // ---- record what the pool reported
        let mut step_announced: Vec<(u64, Blk)> = Vec::new();
        for e in &o.events {
            if let PoolEvent::ParentReady { slot, parent } = e {
                let p = self.blk_of(parent);
                *w.announced.entry((slot.inner(), p)).or_default() += 1;
                step_announced.push((slot.inner(), p));
            }
        }
        let fin_events = !o.fins.is_empty();
        for f in &o.fins {
            if let Some(b) = &f.finalized {
                *w.rep_direct.entry(self.blk_of(b)).or_default() += 1;
                *w.rep_fin.entry(self.blk_of(b)).or_default() += 1;
            }
            for b in &f.implicitly_finalized {
                *w.rep_fin.entry(self.blk_of(b)).or_default() += 1;
            }
            for s in &f.implicitly_skipped {
                *w.rep_skip.entry(s.inner()).or_default() += 1;
            }
        }
        let mut step_woken: Vec<(u64, Blk)> = Vec::new();
        let slots: Vec<u64> = w.waiters.keys().copied().collect();
        for s in slots {
            if let Ok(b) = w.waiters.get_mut(&s).unwrap().try_recv() {
                let b = self.blk_of(&b);
                w.woken.insert(s, b);
                step_woken.push((s, b));
            }
        }
        if !check {
            // recovery is triggered in every state of the path (the standstill timer fires again and
            // again on one pool instance), it is examined in the state under check
            if self.probe_standstill {
                let _ = catch(std::panic::AssertUnwindSafe(|| w.pool.standstill()));
            }
            return out;
        }

        // ---- C08: finality
        let (fin, implskip) = w.rf.fin();
        let real_fin = w.pool.pool.finalized_slot().inner();
        if real_fin != w.rf.finalized_slot() {
            out.push(
                "C08:finalized-slot-differs".to_string(),
                format!("finalized_slot() = {real_fin}, reference (FF or Final+Notar held) = {} after {}", w.rf.finalized_slot(), op.show()),
            );
        }
        if real_fin < w.max_finalized_seen {
            out.push("C08:finalized-slot-decreased".to_string(), format!("{} -> {real_fin}", w.max_finalized_seen));
        }
        w.max_finalized_seen = w.max_finalized_seen.max(real_fin);
        let rep: BTreeSet<Blk> = w.rep_fin.keys().copied().filter(|b| *b != GENESIS).collect();
        let want: BTreeSet<Blk> = fin.iter().copied().filter(|b| *b != GENESIS).collect();
        for m in want.difference(&rep) {
            out.push(
                "C08:finalization-not-reported".to_string(),
                format!("after {}: block {m:?} is finalized per held certificates and known parent links but was not reported", op.show()),
            );
        }
        // C01: what a node finalizes is a function of the certificates and blocks it holds, not of
        // the order they came in - two correct nodes holding the same inputs agree.
        for e in rep.difference(&want) {
            out.push(
                "C01:finalized-set-depends-on-delivery-order".to_string(),
                format!("after {}: block {e:?} reported finalized; a node given the same certificates and blocks in another order finalizes {want:?}", op.show()),
            );
        }
        {
            let mut per_slot: BTreeMap<u64, BTreeSet<u8>> = BTreeMap::new();
            for b in &rep {
                per_slot.entry(b.slot).or_default().insert(b.idx);
            }
            for (s, bs) in per_slot.iter().filter(|(_, bs)| bs.len() > 1) {
                out.push("C01:two-blocks-finalized-in-one-slot".to_string(), format!("after {}: slot {s} has finalized blocks {bs:?}", op.show()));
            }
        }
        for e in rep.difference(&want) {
            out.push(
                "C08:unjustified-finalization-reported".to_string(),
                format!("after {}: block {e:?} reported finalized without FF / Final+Notar / finalized descendant", op.show()),
            );
        }
        for (b, n) in &w.rep_fin {
            if *n > 1 {
                out.push("C08:finalization-reported-twice".to_string(), format!("block {b:?} reported finalized {n} times (last op {})", op.show()));
            }
        }
        let rep_s: BTreeSet<u64> = w.rep_skip.keys().copied().collect();
        for m in implskip.difference(&rep_s) {
            out.push("C08:implicit-skip-not-reported".to_string(), format!("after {}: slot {m} is implicitly skipped but was not reported", op.show()));
        }
        for e in rep_s.difference(&implskip) {
            out.push("C08:unjustified-implicit-skip".to_string(), format!("after {}: slot {e} reported implicitly skipped", op.show()));
        }
        for (s, n) in &w.rep_skip {
            if *n > 1 {
                out.push("C08:implicit-skip-reported-twice".to_string(), format!("slot {s} reported {n} times"));
            }
        }
        // pruning watermark
        let real_wm = w.pool.pool.verif_first_unpruned_slot().inner();
        if real_wm > w.rf.watermark {
            out.push(
                "C08:pruned-past-undecided-slot".to_string(),
                format!("after {}: first unpruned slot {real_wm} but only slots up to {} are decided", op.show(), w.rf.watermark),
            );
        } else if real_wm < w.rf.watermark {
            out.push(
                "C08:decided-prefix-not-pruned".to_string(),
                format!("after {}: slots up to {} are decided but first unpruned slot is {real_wm}", op.show(), w.rf.watermark),
            );
        }
        let ret = w.pool.pool.verif_retained();
        let below = |v: &Vec<Slot>| v.iter().filter(|s| s.inner() < real_wm).count();
        let stale = below(&ret.slot_states) + below(&ret.parent_ready) + below(&ret.finality_status) + below(&ret.finality_parents);
        if stale > 0 {
            out.push(
                "C08:state-retained-below-watermark".to_string(),
                format!("after {}: {stale} entries retained below first unpruned slot {real_wm}: {ret:?}", op.show()),
            );
        }
        let stale_waiting = ret.s2n_waiting.iter().filter(|(_, c)| c.0.inner() < real_wm).count();
        if stale_waiting > 0 {
            out.push(
                "C08:waiting-children-retained-below-watermark".to_string(),
                format!("after {}: {stale_waiting} waiting-child entries for decided slots below {real_wm}", op.show()),
            );
        }

        // ---- C07: parent-ready
        for s in self.window_starts() {
            if s < real_wm.min(w.rf.watermark) {
                continue;
            }
            let want = w.rf.parents_ready(s);
            let got: BTreeSet<Blk> = w.pool.pool.parents_ready(Slot::new(s)).iter().map(|b| self.blk_of(b)).collect();
            let got_n = w.pool.pool.parents_ready(Slot::new(s)).len();
            if got_n != got.len() {
                out.push("C07:ready-list-has-duplicates".to_string(), format!("parents_ready({s}) lists a block twice"));
            }
            for m in want.difference(&got) {
                out.push(
                    format!("C07:ready-parent-missing:last={}", op_class(op)),
                    format!("after {}: {m:?} is a certified, skip-connected parent for slot {s} but parents_ready({s}) = {got:?}", op.show()),
                );
            }
            for e in got.difference(&want) {
                out.push(
                    format!("C07:unready-parent-reported:last={}", op_class(op)),
                    format!("after {}: parents_ready({s}) contains {e:?}, reference set {want:?}", op.show()),
                );
            }
            // announcements: sound, once, complete up to the documented suppression
            let newly: BTreeSet<Blk> = want.difference(ready_before.get(&s).unwrap()).copied().collect();
            let max_announced = step_announced.iter().map(|(s, _)| *s).max();
            for b in &newly {
                if !step_announced.contains(&(s, *b)) {
                    let dominated = fin_events && max_announced.is_some_and(|m| m >= s);
                    if !dominated {
                        out.push(
                            format!("C07:ready-parent-not-announced:last={}", op_class(op)),
                            format!("after {}: ({s}, {b:?}) became ready but no ParentReady was emitted (announced this step: {step_announced:?})", op.show()),
                        );
                    }
                }
            }
            // waiter woken in the step the set becomes non-empty
            if ready_before.get(&s).unwrap().is_empty() && !want.is_empty() && w.waiters.contains_key(&s) {
                match step_woken.iter().find(|(x, _)| *x == s) {
                    None if !w.woken.contains_key(&s) => out.push(
                        format!("C07:waiter-not-woken:last={}", op_class(op)),
                        format!("after {}: a waiter is registered for slot {s} and {want:?} became ready, but it was not woken", op.show()),
                    ),
                    _ => {}
                }
            }
        }
        for (s, b) in &step_announced {
            if !w.rf.parents_ready(*s).contains(b) {
                out.push(
                    format!("C07:announced-unready-parent:last={}", op_class(op)),
                    format!("after {}: ParentReady({s}, {b:?}) but reference set is {:?}", op.show(), w.rf.parents_ready(*s)),
                );
            }
            if *s < wm_before {
                out.push("C07:announced-for-pruned-slot".to_string(), format!("ParentReady for slot {s} below watermark {wm_before}"));
            }
            if s % SLOTS_PER_WINDOW != 0 {
                out.push("C07:announced-for-non-window-start".to_string(), format!("ParentReady for slot {s}"));
            }
        }
        for ((s, b), n) in &w.announced {
            if *n > 1 {
                out.push("C07:announced-twice".to_string(), format!("ParentReady({s}, {b:?}) emitted {n} times (last op {})", op.show()));
            }
        }
        for (s, b) in &step_woken {
            if !w.rf.parents_ready(*s).contains(b) {
                out.push("C07:waiter-woken-with-unready-parent".to_string(), format!("waiter for {s} woken with {b:?}"));
            }
        }
        let _ = digest_before;

        // ---- C18: standstill bundle in this state
        if self.probe_standstill {
            self.check_standstill(w, &mut out);
        }

        out.violations.retain(|(k, _)| k.starts_with(self.focus));
        if !out.violations.is_empty() {
            out.fatal = true;
        }
        out
    }

    fn digest(&self, w: &ChainWorld) -> u64 {
        let mut h = new_hasher();
        w.pool.digest().hash(&mut h);
        w.delivered.hash(&mut h);
        // what was reported so far is part of the state the oracles depend on
        w.announced.hash(&mut h);
        w.rep_fin.hash(&mut h);
        w.rep_skip.hash(&mut h);
        w.woken.hash(&mut h);
        w.waiters.keys().collect::<Vec<_>>().hash(&mut h);
        h.finish()
    }

    fn describe(&self, action: u16) -> String {
        self.ops[action as usize].show()
    }

    fn outcome(&self, w: &ChainWorld) -> u64 {
        let mut h = new_hasher();
        w.rf.certs.hash(&mut h);
        w.rf.watermark.hash(&mut h);
        w.announced.hash(&mut h);
        w.rep_fin.hash(&mut h);
        w.rep_skip.hash(&mut h);
        h.finish()
    }
}

fn op_class(op: &Op) -> String {
    match op {
        Op::Vote(v) => format!("vote-{:?}", v.kind),
        Op::Cert(c) => format!("cert-{:?}", c.kind),
        Op::Block { .. } => "block".into(),
        Op::Standstill => "standstill".into(),
        Op::Wait(_) | Op::WaitAbandoned(_) => "wait".into(),
    }
}
